(* C04 - Circuit editing calls have their documented effect on program order.
   Statements only; proofs in circuit/CThm.v, circuit/CThm2.v (remaining editors) and
   circuit/CFoldThm.v (fold, partial).  `tl c q` is the timeline of qudit q
   (its operations, cycle after cycle); `tlc` the same on a list of cycles. *)
From Coq Require Import List ZArith.
Import ListNotations.
From BQ Require Import lib.Trace circuit.CModel circuit.CThm circuit.CThm2 circuit.CFold circuit.CFoldThm
  circuit.CExt circuit.CExtThm circuit.CTailThm.

(* iteration order restricted to a qudit is that qudit's timeline *)
Theorem C04_iteration_is_timeline : forall cs q,
  Forall amo cs -> filter (touches q) (iter_ops cs) = tlc cs q.
Proof. exact proj_iter. Qed.

(* append: the operation comes last on each of its qudits; nothing else changes *)
Theorem C04_append : forall c o q, tl (fst (append_raw c o)) q = tl c q ++ one q o.
Proof. exact append_raw_tl. Qed.

(* insert: on each of its qudits the operation sits after exactly the operations in
   cycles before the clamped index; an index past the end / empty circuit appends *)
Theorem C04_insert : forall c ci o q,
  valid_op c o = true ->
  tl (fst (insert c ci o)) q =
  match insert_index c ci with
  | Some i => tlc (firstn i (cycles c)) q ++ one q o ++ tlc (skipn i (cycles c)) q
  | None => tl c q ++ one q o
  end.
Proof. exact insert_tl. Qed.

(* pop / removal: only the operations of cycle i touching q0 disappear *)
Theorem C04_remove : forall c i q0 q,
  i < ncyc c ->
  tl (remove_op c i q0) q =
  tlc (firstn i (cycles c)) q
  ++ filter (touches q) (filter (fun o => negb (touches q0 o)) (cycle_at c i))
  ++ tlc (skipn (S i) (cycles c)) q.
Proof. exact remove_op_tl. Qed.

(* insert_circuit with an index that resolves inside the circuit: the sub-circuit's
   operations, relabelled through `location`, in the sub-circuit's own order, sit
   between the cycles before the index and those from the index on.  (Before the
   fix 9296dff this failed for negative indices; corpus/C04/D2_*.) *)
Theorem C04_insert_circuit : forall c ci sub location q i,
  nq sub = length location ->
  insert_index c ci = Some i ->
  (forall o c', In o (map (map_loc location) (riter_ops (cycles sub))) -> nq c' = nq c -> rads c' = rads c -> valid_op c' o = true) ->
  let r := insert_circuit c ci sub location false in
  snd r = OkU /\
  tl (fst r) q = tlc (firstn i (cycles c)) q
                 ++ filter (touches q) (rev (map (map_loc location) (riter_ops (cycles sub))))
                 ++ tlc (skipn i (cycles c)) q.
Proof. exact insert_circuit_tl. Qed.

(* reverse iteration, reversed, is the forward timeline: the order in which
   insert_circuit / get_inverse walk a circuit is each qudit's own order reversed *)
Theorem C04_reverse_iteration : forall cs q, Forall amo cs -> filter (touches q) (rev (riter_ops cs)) = tlc cs q.
Proof. exact rev_riter_timeline. Qed.

(* compress is structure-only *)
Theorem C04_compress_structure_only : forall c q, Forall amo (cycles c) -> tl (compress c) q = tl c q.
Proof. exact compress_tl. Qed.

(* "...and therefore denotes the same unitary": for ANY monoid-valued semantics in
   which operations on disjoint qudits commute (matrices under embedding are one:
   lib/Tensor), circuits with the same per-qudit timelines have the same denotation *)
Theorem C04_same_unitary :
  forall (M : Type) (mul : M -> M -> M) (one_ : M) (den : op -> M),
  (forall x y z, mul x (mul y z) = mul (mul x y) z) ->
  (forall x, mul one_ x = x) ->
  (forall a b, indep op o_loc a b -> mul (den a) (den b) = mul (den b) (den a)) ->
  forall c1 c2,
  Inv c1 -> Inv c2 ->
  (forall o, In o (iter_ops (cycles c1)) -> o_loc o <> []) ->
  length (iter_ops (cycles c1)) = length (iter_ops (cycles c2)) ->
  (forall q, tl c1 q = tl c2 q) ->
  denote M mul one_ den c1 = denote M mul one_ den c2.
Proof. exact same_timelines_same_denotation. Qed.

(* ---- replace ---------------------------------------------------------------------------- *)
(* in place (same set of qudits): the new operation takes the old one's place on each of
   them; nothing else changes (the old timeline is the same with [old] for [o]: cell_tl) *)
Theorem C04_replace_inplace : forall c ci qi o old q',
  let i := normZ ci (ncyc c) in let q := normZ qi (nq c) in
  valid_op c o = true -> point_in_range c ci qi = true -> amo (cycle_at c i) ->
  get_cell c i q = Some old -> seteqb (o_loc old) (o_loc o) = true ->
  let r := replace c (ci, qi) o in
  snd r = OkU /\ nq (fst r) = nq c /\ rads (fst r) = rads c /\ ncyc (fst r) = ncyc c /\
  tl (fst r) q' = tlc (firstn i (cycles c)) q'
                  ++ (if touches q' old then [o] else filter (touches q') (cycle_at c i))
                  ++ tlc (skipn (S i) (cycles c)) q'.
Proof. exact replace_inplace_tl. Qed.

Theorem C04_timeline_at_cell : forall c i q old q',
  i < ncyc c -> amo (cycle_at c i) -> get_cell c i q = Some old ->
  tl c q' = tlc (firstn i (cycles c)) q'
            ++ (if touches q' old then [old] else filter (touches q') (cycle_at c i))
            ++ tlc (skipn (S i) (cycles c)) q'.
Proof. exact cell_tl. Qed.

(* different qudits (pop + insert): the old operation is gone and the new one sits, on each
   of its qudits, after the cycles before the old cycle index and before what is left of
   that cycle and everything later - also when the old operation was alone in the last cycle *)
Theorem C04_replace_move : forall c ci qi o old q',
  let i := normZ ci (ncyc c) in let q := normZ qi (nq c) in
  valid_op c o = true -> point_in_range c ci qi = true ->
  get_cell c i q = Some old -> disjointb (o_loc old) (o_loc o) = false -> seteqb (o_loc old) (o_loc o) = false ->
  let r := replace c (ci, qi) o in
  snd r = OkU /\
  tl (fst r) q' = tlc (firstn i (cycles c)) q' ++ one q' o
                  ++ filter (touches q') (filter (fun x => negb (touches q x)) (cycle_at c i))
                  ++ tlc (skipn (S i) (cycles c)) q'.
Proof. exact replace_move_tl. Qed.

(* ---- several removals, highest cycle first (the core of batch_pop and pop_qudit) ----------- *)
Theorem C04_removes : forall R c q,
  desc R -> named c R -> distinct_reqs c R ->
  tl (removes R c) q = tlc (filt R 0 (cycles c)) q.
Proof. exact removes_tl. Qed.

(* batch_pop: exactly the operations named by the (normalised) points disappear - `filt npts`
   drops from cycle i the operations touching a qudit q with (i, q) among the points *)
Theorem C04_batch_pop : forall c pts q,
  Inv c -> forallb (fun p => point_in_range c (fst p) (snd p)) pts = true ->
  (exists p o, In p pts /\ get_cell c (normZ (fst p) (ncyc c)) (normZ (snd p) (nq c)) = Some o) ->
  let npts := map (fun p => (normZ (fst p) (ncyc c), normZ (snd p) (nq c))) pts in
  exists sub, snd (batch_pop c pts) = OkC sub /\
  tl (fst (batch_pop c pts)) q = tlc (filt npts 0 (cycles c)) q.
Proof. exact batch_pop_removed_tl. Qed.

(* the returned circuit holds the popped operations `bp_ops` (cycle after cycle, in iteration
   order) on the used qudits renumbered in increasing order *)
Theorem C04_batch_pop_returned_partial : forall c pts q sub,
  snd (batch_pop c pts) = OkC sub ->
  let ops := bp_ops c pts in let qs := used_qudits ops in
  In q qs ->
  nq sub = length qs /\
  tl sub (index_of q qs) = map (relab (fun a => index_of a qs)) (filter (touches q) ops).
Proof. exact batch_pop_returned_partial. Qed.
(* ... and `bp_ops` lists, on every qudit, exactly the removed operations in cycle order: the
   returned circuit shows every used qudit, renumbered, what was removed from its timeline *)
Theorem C04_batch_pop_returned : forall c pts q sub,
  Inv c -> snd (batch_pop c pts) = OkC sub ->
  let npts := map (fun p => (normZ (fst p) (ncyc c), normZ (snd p) (nq c))) pts in
  let qs := used_qudits (bp_ops c pts) in
  In q qs ->
  tl sub (index_of q qs)
  = map (relab (fun a => index_of a qs))
        (flat_map (fun i => filter (touches q) (filter (hit npts i) (cycle_at c i))) (seq 0 (ncyc c))).
Proof. exact batch_pop_returned_tl. Qed.

(* ---- replace_with_circuit / unfold ------------------------------------------------------------ *)
Theorem C04_replace_with_circuit : forall c ci qi sub old q',
  let i := normZ ci (ncyc c) in let q := normZ qi (nq c) in
  point_in_range c ci qi = true -> get_cell c i q = Some old ->
  nq sub = length (o_loc old) ->
  nat_list_eqb (rads sub) (map (fun a => nth a (rads c) 0) (o_loc old)) = true ->
  NoDup (o_loc old) -> Forall amo (cycles sub) -> all_qudits (fun a => a < nq sub) (cycles sub) ->
  (forall o, In o (iter_ops (cycles sub)) -> valid_op c (map_loc (o_loc old) o) = true) ->
  let r := replace_with_circuit c (ci, qi) sub false in
  snd r = OkU /\
  tl (fst r) q' = tlc (firstn i (cycles c)) q'
                  ++ filter (touches q') (map (map_loc (o_loc old)) (iter_ops (cycles sub)))
                  ++ filter (touches q') (filter (fun x => negb (touches q x)) (cycle_at c i))
                  ++ tlc (skipn (S i) (cycles c)) q'.
Proof. exact replace_with_circuit_tl. Qed.

(* unfold: the block's place is taken by its inner operations, parameters distributed by
   set_params_cycles, relabelled through the block's location, in the inner circuit's order *)
Theorem C04_unfold : forall c ci qi blk q',
  let i := normZ ci (ncyc c) in let q := normZ qi (nq c) in
  point_in_range c ci qi = true -> get_cell c i q = Some blk -> o_isblk blk = true ->
  length (o_rad blk) = length (o_loc blk) ->
  nat_list_eqb (o_rad blk) (map (fun a => nth a (rads c) 0) (o_loc blk)) = true ->
  NoDup (o_loc blk) -> Forall amo (o_sub blk) -> all_qudits (fun a => a < length (o_rad blk)) (o_sub blk) ->
  let inner := iter_ops (set_params_cycles (o_sub blk) (o_ps blk)) in
  (forall o, In o inner -> valid_op c (map_loc (o_loc blk) o) = true) ->
  let r := unfold c (ci, qi) in
  snd r = OkU /\
  tl (fst r) q' = tlc (firstn i (cycles c)) q'
                  ++ filter (touches q') (map (map_loc (o_loc blk)) inner)
                  ++ filter (touches q') (filter (fun x => negb (touches q x)) (cycle_at c i))
                  ++ tlc (skipn (S i) (cycles c)) q'.
Proof. exact unfold_tl. Qed.

(* set_params_cycles keeps the structure: cycle by cycle the same operations up to parameters *)
Theorem C04_set_params_structure : forall cs ps,
  Forall2 (Forall2 same_but_ps) (set_params_cycles cs ps) (map fwd_cycle cs).
Proof. exact spc_same. Qed.

(* ---- qudit editors ------------------------------------------------------------------------------ *)
Theorem C04_append_qudit : forall c radix q,
  2 <= radix ->
  let r := append_qudit c radix in
  snd r = OkU /\ nq (fst r) = S (nq c) /\ rads (fst r) = rads c ++ [radix] /\ tl (fst r) q = tl c q.
Proof. exact append_qudit_tl. Qed.

Theorem C04_insert_qudit_past_end : forall c qi radix,
  (Z.of_nat (nq c) <= qi)%Z -> insert_qudit c qi radix = append_qudit c radix.
Proof. exact insert_qudit_past_end. Qed.

(* old qudit q becomes shift_up k q, its timeline relabelled; the new qudit k is idle *)
Theorem C04_insert_qudit : forall c qi radix q,
  2 <= radix -> (qi < Z.of_nat (nq c))%Z ->
  let k := qudit_index c qi in
  let r := insert_qudit c qi radix in
  snd r = OkU /\ nq (fst r) = S (nq c) /\ rads (fst r) = insert_at k radix (rads c) /\
  tl (fst r) (shift_up k q) = map (relab (shift_up k)) (tl c q) /\ tl (fst r) k = [].
Proof. exact insert_qudit_tl. Qed.

(* pop_qudit k: operations touching k disappear; qudit q <> k becomes shift_down k q *)
Theorem C04_pop_qudit : forall c qi q,
  Inv c -> in_rangeZ qi (nq c) = true -> nq c <> 1 ->
  let k := normZ qi (nq c) in
  q <> k ->
  let r := pop_qudit c qi in
  snd r = OkU /\ nq (fst r) = nq c - 1 /\ rads (fst r) = remove_at k (rads c) /\
  tl (fst r) (shift_down k q) = map (relab (shift_down k)) (filter (fun o => negb (touches k o)) (tl c q)).
Proof. exact pop_qudit_tl. Qed.

(* renumber_qudits with a permutation: qudit q becomes perm[q]; radixes move along *)
Theorem C04_renumber : forall c perm q,
  length perm = nq c -> nodupn perm = true -> forallb (fun a => Nat.ltb a (nq c)) perm = true ->
  in_range c -> q < nq c ->
  let r := renumber_qudits c perm in
  snd r = OkU /\ nq (fst r) = nq c /\
  tl (fst r) (nth q perm 0) = map (relab (fun a => nth a perm 0)) (tl c q) /\
  nth (nth q perm 0) (rads (fst r)) 0 = nth q (rads c) 0.
Proof. exact renumber_tl. Qed.

(* ---- concatenation ---------------------------------------------------------------------------------- *)
(* extend: the operations up to the first rejected one are appended in order *)
Theorem C04_extend : forall ops c q,
  let r := seq_ops append c ops in
  tl (fst r) q = tl c q ++ filter (touches q) (valid_prefix c ops)
  /\ nq (fst r) = nq c /\ rads (fst r) = rads c
  /\ (valid_prefix c ops = ops -> snd r = OkU)
  /\ (valid_prefix c ops <> ops -> snd r = Err ValueError).
Proof. exact extend_tl. Qed.

Theorem C04_append_circuit : forall c sub location q,
  nq sub = length location ->
  let ops := map (map_loc location) (iter_ops (cycles sub)) in
  let r := append_circuit c sub location false in
  tl (fst r) q = tl c q ++ filter (touches q) (valid_prefix c ops)
  /\ nq (fst r) = nq c /\ rads (fst r) = rads c
  /\ (valid_prefix c ops = ops -> snd r = OkN (-1)).
Proof. exact append_circuit_tl. Qed.

Theorem C04_append_circuit_as_gate : forall c sub location q,
  nq sub = length location ->
  let r := append_circuit c sub location true in
  tl (fst r) q = tl c q ++ (if valid_op c (block_of sub location) then one q (block_of sub location) else []).
Proof. exact append_circuit_gate_tl. Qed.

Theorem C04_iadd : forall a b q,
  nq b = nq a -> Forall amo (cycles b) -> all_qudits (fun x => x < nq a) (cycles b) ->
  (forall o, In o (iter_ops (cycles b)) -> valid_op a o = true) ->
  let r := c_iadd a b in
  snd r = OkU /\ tl (fst r) q = tl a q ++ tl b q.
Proof. exact iadd_tl. Qed.

Theorem C04_mul : forall a n q,
  Forall amo (cycles a) -> in_range a ->
  (forall o, In o (iter_ops (cycles a)) -> valid_op a o = true) ->
  tl (c_mul a n) q = repeat_app n (tl a q).
Proof. exact mul_tl. Qed.

(* a *= n (n >= 1, as the code requires): n copies; a + b: a new circuit, a itself unchanged *)
Theorem C04_imul : forall a n q,
  Forall amo (cycles a) -> in_range a -> (forall o, In o (iter_ops (cycles a)) -> valid_op a o = true) ->
  tl (c_imul a n) q = repeat_app (S (n - 1)) (tl a q).
Proof. exact imul_tl. Qed.

Theorem C04_add : forall a b q,
  nq b = nq a -> Forall amo (cycles a) -> Forall amo (cycles b) -> in_range a ->
  all_qudits (fun x => x < nq a) (cycles b) ->
  (forall o, In o (iter_ops (cycles a)) -> valid_op a o = true) ->
  (forall o, In o (iter_ops (cycles b)) -> valid_op a o = true) ->
  exists s, c_add a b = (a, OkC s) /\ tl s q = tl a q ++ tl b q.
Proof. exact add_tl. Qed.

(* one pass of unfold_all: every block replaced, in iteration order, by its inner operations *)
Theorem C04_unfold_once : forall c q,
  tl (unfold_once c) q = filter (touches q) (flat_map expand_op (iter_ops (cycles c))).
Proof. exact unfold_once_tl. Qed.

Theorem C04_clear : forall c q, tl (clear c) q = [] /\ nq (clear c) = nq c /\ rads (clear c) = rads c.
Proof. exact clear_tl. Qed.

(* ---- fold (model: circuit/CFold.v; partial) ---------------------------------------------------------- *)
(* moving an operation to an earlier cycle across cells that are idle on its qudits (what one
   round of straighten does) changes no timeline *)
Theorem C04_fold_move_partial : forall c old new o q,
  Forall amo (cycles c) -> new < old -> old < ncyc c ->
  get_cell c old (hd0 (o_loc o)) = Some o ->
  (forall q', In q' (o_loc o) -> forall j, new <= j < old -> filter (touches q') (cycle_at c j) = []) ->
  tl (move_op c old new o) q = tl c q.
Proof. exact move_op_tl_partial. Qed.

Theorem C04_fold_straighten_round_partial : forall c r sq old new,
  Forall amo (cycles c) -> new < old -> old < ncyc c ->
  (forall q o, In q sq -> round_cond r old q = true -> get_cell c old q = Some o -> crosses_idle c old new o) ->
  let c' := fst (fst (straighten_round c r sq old new)) in
  Forall amo (cycles c') /\ ncyc c' = ncyc c /\ (forall q, tl c' q = tl c q).
Proof. exact straighten_round_tl_partial. Qed.

Theorem C04_fold_idle_cycles_partial : forall c i q,
  tl (insert_cycle c i) q = tl c q /\ (cycle_at c i = [] -> tl (fst (pop_cycle c i)) q = tl c q).
Proof. intros c i q. split; [exact (insert_cycle_tl_partial c i q)|exact (pop_idle_cycle_tl_partial c i q)]. Qed.


(* ---- fold = straighten ; fold_tail, and the tail (batch_pop + insert_circuit as a gate) as a whole ------- *)
Theorem C04_fold_is_straighten_then_tail : forall c items,
  fold c items =
  let r := mk_region items in
  if negb (intervals_ok r) then (c, Err ValueError)
  else match r with
       | [] => (c, Err ValueError)
       | _ => match straighten_r c r with
              | (c1, SErr e) => (c1, Err e)
              | (c1, SOk r1 _ _) => fold_tail c1 r1
              end
       end.
Proof. exact fold_is_tail. Qed.

(* the same with the repaired straighten of fixes/D6.patch (fx = true: the algorithm /repo runs since that fix;
   fx = false is the one above) *)
Theorem C04_fold_x_is_straighten_then_tail : forall fx c items,
  fold_x fx c items =
  let r := mk_region items in
  if negb (intervals_ok r) then (c, Err ValueError)
  else match r with
       | [] => (c, Err ValueError)
       | _ => match straighten_rx fx c r with
              | (c1, SErr e) => (c1, Err e)
              | (c1, SOk r1 _ _) => fold_tail c1 r1
              end
       end.
Proof. exact fold_x_is_tail. Qed.

(* For the circuit c and region r that straighten hands over (tail_ok: every interval starts at the same cycle m and
   lies inside the circuit, an operation with one cell in the region has all its cells there, every region qudit
   holds a region operation and these are the qudits of the popped circuit): the tail returns m and, on EVERY qudit,
   the result is the old timeline with the region's operations taken out (`filt`) and ONE block, located on the
   sorted region qudits, put where the first of them was: after everything in cycles < m, before everything else. *)
Theorem C04_fold_tail_replaces : forall c r,
  Inv c -> tail_ok c r = true -> forall q,
  exists sub, snd (batch_pop c (zpoints r)) = OkC sub /\
  let blk := block_of sub (sort_nat (r_keys r)) in
  nq sub = length (sort_nat (r_keys r)) /\ Inv sub /\
  snd (fold_tail c r) = OkN (Z.of_nat (r_min_cycle r)) /\
  tl (fst (fold_tail c r)) q = tlc (firstn (r_min_cycle r) (cycles c)) q ++ one q blk
                               ++ tlc (filt (r_points r) (r_min_cycle r) (skipn (r_min_cycle r) (cycles c))) q.
Proof. exact fold_tail_replaces. Qed.

(* ... the timeline before is the same thing with, in the block's place, the popped operations of that qudit in
   cycle order (`popped_on`): putting the block's content back (unfold) restores every timeline *)
Theorem C04_fold_tail_original : forall c r,
  tail_ok c r = true -> forall q,
  tl c q = tlc (firstn (r_min_cycle r) (cycles c)) q ++ popped_on c r q
           ++ tlc (filt (r_points r) (r_min_cycle r) (skipn (r_min_cycle r) (cycles c))) q.
Proof. exact fold_tail_original. Qed.

(* ... and the block's inner circuit holds, on the renumbered qudit, exactly these popped operations in that order;
   a qudit outside the region loses nothing *)
Theorem C04_fold_tail_block : forall c r q sub,
  Inv c -> tail_ok c r = true -> snd (batch_pop c (zpoints r)) = OkC sub ->
  let K := sort_nat (r_keys r) in
  (In q K -> tl sub (index_of q K) = map (relab (fun a => index_of a K)) (popped_on c r q))
  /\ (~ In q K -> popped_on c r q = []).
Proof. exact fold_tail_block_both. Qed.

(* the full statement for fold: the premise `tail_ok` of the three theorems above and timeline preservation by
   straighten must be derived from check_region (the walk) - not proved; the harness evaluates tail_ok on the real
   straightened state of every fold call *)
Definition C04_fold_full : Prop := fold_keeps_unfolded_timelines_full.

(* ---- unfold_all: the fixpoint -------------------------------------------------------------------------------- *)
(* termination by nesting depth: depth+1 passes always suffice (no fuel left to the caller), the result holds no
   block, and any larger fuel gives the same circuit *)
Theorem C04_unfold_all_terminates : forall c,
  exists c', unfold_all c = Some c' /\ has_block c' = false /\
             forall fuel, circ_depth c < fuel -> unfold_all_fuel fuel c = Some c'.
Proof. exact unfold_all_terminates. Qed.

(* the result shows on every qudit the full expansion of the iteration order (every block replaced, `depth` times,
   by its inner operations relabelled through its location, parameters distributed), which holds no block *)
Theorem C04_unfold_all : forall c c' q,
  Forall amo (cycles c) -> wf_circ c = true -> unfold_all c = Some c' ->
  tl c' q = filter (touches q) (full_expand c).
Proof. exact unfold_all_tl. Qed.

Theorem C04_full_expand_flat : forall c o, In o (full_expand c) -> o_isblk o = false.
Proof. exact full_expand_flat. Qed.

(* What is still correspondence-only in C04: batch_replace (a loop of the proved `replace` with index
   compensation) and, inside fold, straighten as a whole + the derivation of tail_ok from check_region. *)
Definition C04_full : Prop :=
  C04_fold_full /\
  forall c pts ops q, exists ref_timeline : list op, tl (fst (batch_replace c pts ops)) q = ref_timeline.

(* non-vacuity: a concrete 3-call history on 2 qubits; CX(0,1); X(0) inserted at 0; X(1) appended *)
Example C04_nonvacuous :
  let cx := Op false 4 [0;1] [] [2;2] [] in
  let x0 := Op false 1 [0] [] [2] [] in
  let x1 := Op false 1 [1] [] [2] [] in
  let c := fold_left do_call [CAppend cx; CInsert 0 x0; CAppend x1] (mkC 2 [2;2] []) in
  tl c 0 = [x0; cx] /\ tl c 1 = [cx; x1] /\ valid_op (mkC 2 [2;2] []) cx = true.
Proof. vm_compute. repeat split. Qed.

(* non-vacuity of the new groups: replace (both branches), unfold of a block, pop_qudit,
   renumber and batch_pop on a 3-qudit circuit *)
Example C04_nonvacuous_editors :
  let cx01 := Op false 4 [0;1] [] [2;2] [] in
  let cx10 := Op false 4 [1;0] [] [2;2] [] in
  let cx12 := Op false 4 [1;2] [] [2;2] [] in
  let x0 := Op false 1 [0] [] [2] [] in
  let rz := Op false 2 [0] [7%Z] [2] [] in
  let blk := Op true 0 [2;0] [5%Z] [2;2] [[Op false 2 [1] [0%Z] [2] []]; [Op false 4 [0;1] [] [2;2] []]] in
  let c := mkC 3 [2;2;2] [[x0]; [cx01]; [blk]] in
  Inv c
  /\ cycles (fst (replace c (1, 0)%Z cx10)) = [[x0]; [cx10]; [blk]]
  /\ cycles (fst (replace c (1, 1)%Z cx12)) = [[x0]; [cx12]; [blk]]
  /\ tl (fst (unfold c (2, 0)%Z)) 0 = [x0; cx01; Op false 2 [0] [5%Z] [2] []; Op false 4 [2;0] [] [2;2] []]
  /\ tl (fst (pop_qudit c 1%Z)) 1 = [Op true 0 [1;0] [5%Z] [2;2] [[Op false 2 [1] [0%Z] [2] []]; [Op false 4 [0;1] [] [2;2] []]]]
  /\ tl (fst (renumber_qudits c [2;0;1])) 2 = map (relab (fun a => nth a [2;0;1] 0)) (tl c 0)
  /\ cycles (fst (batch_pop c [(0, 0); (2, 2)]%Z)) = [[cx01]].
Proof. split; [|vm_compute; repeat split].
  unfold Inv; cbn [cycles].
  repeat (apply Forall_cons; [split; [discriminate|intros q; cbn;
            repeat match goal with |- context[if ?b then _ else _] => destruct b end; cbn; auto]|]).
  apply Forall_nil. Qed.

(* non-vacuity of the fold-tail group: an aligned closed region {0:[1,1], 1:[1,2]} of a 3-qubit circuit; the two
   region operations become one block on (0,1) in cycle 1; here straighten has nothing to do, so this is fold *)
Example C04_nonvacuous_fold_tail :
  let x0 := Op false 1 [0] [] [2] [] in
  let cx01 := Op false 4 [0;1] [] [2;2] [] in
  let rz1 := Op false 2 [1] [7%Z] [2] [] in
  let cx12 := Op false 4 [1;2] [] [2;2] [] in
  let c := mkC 3 [2;2;2] [[x0]; [cx01]; [rz1]; [cx12]] in
  let r := [(0, (1, 1)); (1, (1, 2))] in
  let blk := Op true 0 [0;1] [7%Z] [2;2] [[cx01]; [rz1]] in
  Inv c /\ tail_ok c r = true
  /\ fold_tail c r = (mkC 3 [2;2;2] [[x0]; [blk]; [cx12]], OkN 1%Z)
  /\ fold c r = fold_tail c r
  /\ popped_on c r 1 = [cx01; rz1] /\ popped_on c r 2 = [].
Proof. split; [|vm_compute; repeat split].
  unfold Inv; cbn [cycles].
  repeat (apply Forall_cons; [split; [discriminate|intros q; cbn;
            repeat match goal with |- context[if ?b then _ else _] => destruct b end; cbn; auto]|]).
  apply Forall_nil. Qed.

(* non-vacuity of the unfold_all group: a block nested in a block (depth 2): two passes, no fuel argument *)
Example C04_nonvacuous_unfold_all :
  let h := Op false 1 [0] [] [2] [] in
  let rz := Op false 2 [1] [0%Z] [2] [] in
  let inner := Op true 0 [1;0] [0%Z] [2;2] [[rz]; [Op false 4 [0;1] [] [2;2] []]] in
  let outer := Op true 0 [2;0] [9%Z] [2;2] [[h]; [inner]] in
  let c := mkC 3 [2;2;2] [[outer]] in
  circ_depth c = 2 /\ wf_circ c = true /\ Forall amo (cycles c)
  /\ unfold_all c = Some (mkC 3 [2;2;2] [[Op false 1 [2] [] [2] []]; [Op false 2 [2] [9%Z] [2] []]; [Op false 4 [0;2] [] [2;2] []]])
  /\ unfold_all_fuel 1 c = None
  /\ filter (touches 2) (full_expand c) = [Op false 1 [2] [] [2] []; Op false 2 [2] [9%Z] [2] []; Op false 4 [0;2] [] [2;2] []].
Proof. split; [vm_compute; reflexivity|]. split; [vm_compute; reflexivity|]. split; [|vm_compute; repeat split].
  constructor; [|constructor]. apply amo_single. Qed.
