(* C04 - Circuit editing calls have their documented effect on program order.
   Statements only; proofs in circuit/CThm.v.  `tl c q` is the timeline of qudit q
   (its operations, cycle after cycle); `tlc` the same on a list of cycles. *)
From Coq Require Import List ZArith.
Import ListNotations.
From BQ Require Import lib.Trace circuit.CModel circuit.CThm.

(* iteration order restricted to a qudit is that qudit's timeline *)
Theorem C04_iteration_is_timeline : forall cs q,
  Forall amo cs -> filter (touches q) (iter_ops cs) = tlc cs q.
Proof. exact proj_iter. Qed.

(* append: the operation comes last on each of its qudits; nothing else changes *)
Theorem C04_append : forall c o q, tl (fst (append_raw c o)) q = tl c q ++ one q o.
Proof. exact append_raw_tl. Qed.

(* insert: on each of its qudits the operation sits after exactly the operations in
   cycles before the clamped index; an index past the end / empty circuit appends *)
Theorem C04_insert : forall c ci o q,
  valid_op c o = true ->
  tl (fst (insert c ci o)) q =
  match insert_index c ci with
  | Some i => tlc (firstn i (cycles c)) q ++ one q o ++ tlc (skipn i (cycles c)) q
  | None => tl c q ++ one q o
  end.
Proof. exact insert_tl. Qed.

(* pop / removal: only the operations of cycle i touching q0 disappear *)
Theorem C04_remove : forall c i q0 q,
  i < ncyc c ->
  tl (remove_op c i q0) q =
  tlc (firstn i (cycles c)) q
  ++ filter (touches q) (filter (fun o => negb (touches q0 o)) (cycle_at c i))
  ++ tlc (skipn (S i) (cycles c)) q.
Proof. exact remove_op_tl. Qed.

(* insert_circuit with an index that resolves inside the circuit: the sub-circuit's
   operations, relabelled through `location`, in the sub-circuit's own order, sit
   between the cycles before the index and those from the index on.  (Before the
   fix 9296dff this failed for negative indices; corpus/C04/D2_*.) *)
Theorem C04_insert_circuit : forall c ci sub location q i,
  nq sub = length location ->
  insert_index c ci = Some i ->
  (forall o c', In o (map (map_loc location) (riter_ops (cycles sub))) -> nq c' = nq c -> rads c' = rads c -> valid_op c' o = true) ->
  let r := insert_circuit c ci sub location false in
  snd r = OkU /\
  tl (fst r) q = tlc (firstn i (cycles c)) q
                 ++ filter (touches q) (rev (map (map_loc location) (riter_ops (cycles sub))))
                 ++ tlc (skipn i (cycles c)) q.
Proof. exact insert_circuit_tl. Qed.

(* reverse iteration, reversed, is the forward timeline: the order in which
   insert_circuit / get_inverse walk a circuit is each qudit's own order reversed *)
Theorem C04_reverse_iteration : forall cs q, Forall amo cs -> filter (touches q) (rev (riter_ops cs)) = tlc cs q.
Proof. exact rev_riter_timeline. Qed.

(* compress is structure-only *)
Theorem C04_compress_structure_only : forall c q, Forall amo (cycles c) -> tl (compress c) q = tl c q.
Proof. exact compress_tl. Qed.

(* "...and therefore denotes the same unitary": for ANY monoid-valued semantics in
   which operations on disjoint qudits commute (matrices under embedding are one:
   lib/Tensor), circuits with the same per-qudit timelines have the same denotation *)
Theorem C04_same_unitary :
  forall (M : Type) (mul : M -> M -> M) (one_ : M) (den : op -> M),
  (forall x y z, mul x (mul y z) = mul (mul x y) z) ->
  (forall x, mul one_ x = x) ->
  (forall a b, indep op o_loc a b -> mul (den a) (den b) = mul (den b) (den a)) ->
  forall c1 c2,
  Inv c1 -> Inv c2 ->
  (forall o, In o (iter_ops (cycles c1)) -> o_loc o <> []) ->
  length (iter_ops (cycles c1)) = length (iter_ops (cycles c2)) ->
  (forall q, tl c1 q = tl c2 q) ->
  denote M mul one_ den c1 = denote M mul one_ den c2.
Proof. exact same_timelines_same_denotation. Qed.

(* The full statement of the property for the whole editing alphabet (replace,
   batch calls, qudit edits, fold/unfold ...) is not yet proved in Coq; for those
   calls the tie is the step-by-step correspondence of coq/circuit/CModel.v with the
   implementation plus the list-of-cycles reference oracle (harness). *)
Definition C04_full : Prop :=
  forall (ks : list call) n rs q, exists ref_timeline : list op,
    tl (fold_left do_call ks (mkC n rs [])) q = ref_timeline.

(* non-vacuity: a concrete 3-call history on 2 qubits; CX(0,1); X(0) inserted at 0; X(1) appended *)
Example C04_nonvacuous :
  let cx := Op false 4 [0;1] [] [2;2] [] in
  let x0 := Op false 1 [0] [] [2] [] in
  let x1 := Op false 1 [1] [] [2] [] in
  let c := fold_left do_call [CAppend cx; CInsert 0 x0; CAppend x1] (mkC 2 [2;2] []) in
  tl c 0 = [x0; cx] /\ tl c 1 = [cx; x1] /\ valid_op (mkC 2 [2;2] []) cx = true.
Proof. vm_compute. repeat split. Qed.
