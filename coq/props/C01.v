(* C01 - compile() preserves circuit semantics under the reported qudit mappings.
   Only statements closed by `exact`.  The workflow tree compile() runs is TRANSLATED from the live
   objects (gen/Workflows.v); each generated tree is checked by a verified reflective checker
   (wf/Check.v) against the abstract semantics [wsem] of wf/Abs.v, whose leaves are the classified
   contracts of wf/Contracts.v.

   Reading of the result.  [sem s] = the invariant  den(circuit) ~ P_final . embed_placement(input) . P_initial^-1
   holds within the accumulated budget; every leaf contract states what the pass does to it (preserved exactly
   by the ProvedElsewhere leaves -- C04/C05/C08/C09/C11 -- and within one success threshold by the
   AssumedAndTested numerical leaves).  So: IF every leaf meets its contract, THEN on every branch the output
   equals the input under (initial_mapping, final_mapping) within k success thresholds per block, k <= the
   static bound of C01_error_passes, the measurement placeholders are back on final_mapping[q], and no
   CircuitGate block is left.  Level: partial (relative to the AssumedAndTested contracts). *)
From Coq Require Import List Bool Arith String.
Import ListNotations.
From BQ Require Import wf.WfAst wf.State wf.Contracts wf.ContractsThm wf.Abs wf.AbsThm wf.Run wf.Check wf.Spec wf.WfThm.
From BQ Require Import gen.Workflows.
Local Open Scope nat_scope.

(* every branch of every generated workflow (all input kinds, levels, error_threshold / seed settings, model
   classes), from every admissible input class: semantics preserved, measurements restored and undisturbed,
   no blocks left *)
Theorem C01_workflow_preserves_partial : forall n m w, In (n, m, w) wf_table ->
  forall s s' k, In s (full_pre m) -> wsem (m_cfg m) w s s' k -> c01_post s' = true.
Proof. exact c01_workflow_preserves. Qed.

(* the number of error-introducing passes along any branch is statically bounded at levels 1 and 2 (3 and 4);
   at levels 3 and 4 the optimisation loops repeat such passes and only data.error bounds the total *)
Theorem C01_error_passes : forall n m w, In (n, m, w) wf_table ->
  forall N, err_budget m = Some N -> forall s s' k, wsem (m_cfg m) w s s' k -> k <= N.
Proof. exact c01_error_passes. Qed.

(* the checker behind the per-configuration theorems is sound for every workflow tree, every set of initial
   states and every postcondition; loops need no bound (closure of the computed set is checked) *)
Theorem C01_checker_sound : forall c w pre post, wf_establishes c w pre post = true ->
  forall s s' k, In s pre -> wsem c w s s' k -> post s' = true.
Proof. exact wf_establishes_sound. Qed.

Theorem C01_checker_sound_run : forall c w pre post, wf_establishes c w pre post = true ->
  forall s outcomes s' k, In s pre -> run c w outcomes s = Some (s', k) -> post s' = true.
Proof. exact wf_establishes_run. Qed.

Theorem C01_error_bound_sound : forall c w N, err_bound w = Some N ->
  forall s s' k, wsem c w s s' k -> k <= N.
Proof. exact err_bound_sound. Qed.

(* the full statement, for ANY concrete semantics [cexec] of workflows on concrete (circuit, PassData) pairs
   [conc] abstracted by [alpha]: the output of every run from an admissible input is [preserved] (equal to the
   input under the reported mappings within the budget, measurements on final_mapping[q], no blocks) *)
Definition C01_workflow_preserves_full (conc : Type) (alpha : conc -> astate)
  (cexec : config -> pass -> conc -> conc -> Prop) (preserved : conc -> Prop) : Prop :=
  forall n m w, In (n, m, w) wf_table ->
  forall x x', In (alpha x) (full_pre m) -> cexec (m_cfg m) w x x' -> preserved x'.

(* ... which follows from the partial theorem exactly when the implementation refines the abstract semantics
   (every leaf meets its contract of wf/Contracts.v, control passes and predicates behave as modelled) and
   the abstract postcondition means what it says.  These two hypotheses are what stays assumed-and-tested. *)
Theorem C01_full_from_contracts : forall (conc : Type) (alpha : conc -> astate)
  (cexec : config -> pass -> conc -> conc -> Prop) (preserved : conc -> Prop),
  (forall c w x x', cexec c w x x' -> exists k, wsem c w (alpha x) (alpha x') k) ->
  (forall x', c01_post (alpha x') = true -> preserved x') ->
  C01_workflow_preserves_full conc alpha cexec preserved.
Proof. exact c01_full_from_contracts. Qed.

(* ---- the contracts the theorems are relative to (one Hoare triple per leaf kind in wf/ContractsThm.v) ---- *)
Theorem C01_contracts_classified : forall l, leaf_class l = ProvedElsewhere \/ leaf_class l = AssumedAndTested.
Proof. exact leaf_class_total. Qed.

(* search synthesis: a fresh circuit implementing data.target from native multi-qudit gates *)
Theorem C01_contract_synthesis : forall c k g t p, g = LgDefault \/ g = LgModelMQ ->
  triple c (LSynth k g t p) (fun s => ms s = MNone)
  (fun s s' => mqn s' = true /\ sem s' = tgt s /\ dep s' = D0
               /\ (many_model c = false -> nomany s' = true)
               /\ (many_model c = false -> cn s = CReal -> cpl s' = true)).
Proof. exact triple_synth. Qed.

(* gate removal / rebase re-instantiate against data.target: semantics survives iff the target is still valid *)
Theorem C01_contract_scan : forall c f t, triple c (LScan f t) (fun s => ms s = MNone)
  (fun s s' => sem s' = (sem s && tgt s) /\ (mqn s = true -> mqn s' = true) /\ (sqn s = true -> sqn s' = true)
               /\ (cpl s = true -> cpl s' = true) /\ (nomany s = true -> nomany s' = true) /\ dep s' = dep s).
Proof. exact triple_scan. Qed.

(* measurements: extracted, kept out while the circuit is rewritten, restored on final_mapping[q]; any
   rewriting or re-mapping pass after the restoration disturbs them *)
Theorem C01_contract_measurements : forall c,
  triple c LExtractMeas (fun s => ms s = MIn) (fun s s' => ms s' = MOut /\ sem s' = sem s /\ msbad s' = msbad s)
  /\ triple c LRestoreMeas (fun s => ms s = MOut) (fun s s' => ms s' = MBack /\ sem s' = sem s /\ msbad s' = msbad s)
  /\ (forall l, In l [LApplyPlacement; LSabreRoute; LPamRoute; LFill; LGreedyPlace; LSabreLayout; LPamLayout; LSetModel] ->
      triple c l (fun s => ms s = MBack) (fun s s' => msbad s' = true)).
Proof. exact c01_contract_measurements. Qed.

(* non-vacuity: a circuit configuration has an input WITH measurements, a 3-qudit gate, a barrier and a machine
   wider than the circuit whose run ends with the measurements restored; and every level occurs *)
Example C01_run_nonvacuous :
  has_entry (fun x => let '(_, m, w) := x in
     is_circuit m && wf_refutes (m_cfg m) w (full_pre m)
       (fun s => negb (nomany s) && negb (noph s) && negb (fullw s) && match ms s with MIn => true | _ => false end)
       (fun s => c01_post s && match ms s with MBack => true | _ => false end)) = true
  /\ forallb (fun l => has_entry (fun x => is_circuit (snd (fst x)) && Nat.eqb (m_level (snd (fst x))) l)) [1; 2; 3; 4] = true.
Proof. vm_compute. split; reflexivity. Qed.

(* non-vacuity of the error bound: level 1 has a branch that executes 3 error-introducing passes *)
Example C01_error_passes_tight :
  has_entry (fun x => let '(_, m, w) := x in
     is_circuit m && Nat.eqb (m_level m) 1 && match err_bound w with Some 3 => true | _ => false end) = true.
Proof. vm_compute. reflexivity. Qed.
