(* C10 - every circuit-rewriting pass preserves its target within stated tolerance.
   Statements only, closed by `exact`; proofs live in pass/RulesThm.v,
   pass/RulesGenThm.v (over the rules REGENERATED from /repo into gen/RulePasses.v),
   pass/ScanSkelThm.v, pass/UtilThm.v, pass/AnalyticThm.v.

   Family (i): rule-based rewrites.  Numbers are exact elements of Q(zeta_48)
   (lib/Cyclo.v); `circ_den n ops` is the exact 2^n x 2^n matrix of a gate list. *)
From Coq Require Import ZArith List Bool Arith.
Import ListNotations.
From BQ Require Import lib.Trace lib.Cyclo pass.Rules pass.RulesThm gen.RulePasses pass.RulesGenThm.
From BQ Require Import pass.ScanSkel pass.ScanSkelThm pass.ScanSkelIdx pass.ScanSkelWit.
From BQ Require Import pass.Util pass.UtilThm pass.Analytic pass.AnalyticThm.
From Coq Require Import Ring.

(* ---- (i) each fixed rule: the replacement sub-circuit read from the live pass
   object denotes EXACTLY the gate the pass looks for (no global phase) ---------- *)
Theorem C10_rule_CHToCNOTPass :
  r_src rule_CHToCNOTPass = G_CH /\ circ_den 2 (r_repl rule_CHToCNOTPass) = gate_mat G_CH.
Proof. exact CHToCNOT_exact. Qed.
Theorem C10_rule_CNOTToCHPass :
  r_src rule_CNOTToCHPass = G_CX /\ circ_den 2 (r_repl rule_CNOTToCHPass) = gate_mat G_CX.
Proof. exact CNOTToCH_exact. Qed.
Theorem C10_rule_CNOTToCYPass :
  r_src rule_CNOTToCYPass = G_CX /\ circ_den 2 (r_repl rule_CNOTToCYPass) = gate_mat G_CX.
Proof. exact CNOTToCY_exact. Qed.
Theorem C10_rule_CNOTToCZPass :
  r_src rule_CNOTToCZPass = G_CX /\ circ_den 2 (r_repl rule_CNOTToCZPass) = gate_mat G_CX.
Proof. exact CNOTToCZ_exact. Qed.
Theorem C10_rule_CYToCNOTPass :
  r_src rule_CYToCNOTPass = G_CY /\ circ_den 2 (r_repl rule_CYToCNOTPass) = gate_mat G_CY.
Proof. exact CYToCNOT_exact. Qed.
Theorem C10_rule_CZToCNOTPass :
  r_src rule_CZToCNOTPass = G_CZ /\ circ_den 2 (r_repl rule_CZToCNOTPass) = gate_mat G_CZ.
Proof. exact CZToCNOT_exact. Qed.
Theorem C10_rule_SwapToCNOTPass :
  r_src rule_SwapToCNOTPass = G_SWAP /\ circ_den 2 (r_repl rule_SwapToCNOTPass) = gate_mat G_SWAP.
Proof. exact SwapToCNOT_exact. Qed.

(* the generated catalogue holds exactly these rules, and every one of them passes
   the complete checker (well-formed locations, exact, source-free) *)
Theorem C10_rules_catalogue :
  all_rules = [rule_CHToCNOTPass; rule_CNOTToCHPass; rule_CNOTToCYPass; rule_CNOTToCZPass;
               rule_CYToCNOTPass; rule_CZToCNOTPass; rule_SwapToCNOTPass]
  /\ forallb rule_ok all_rules = true.
Proof. exact (conj catalogue_complete rules_all_ok). Qed.

(* ... and the identity holds wherever the replaced operation sits: every location
   (control/target order included) of every register of width 1..5, in the full
   2^n x 2^n exact matrices.  Bound: n <= 5 (exhaustive sweep by vm_compute). *)
Theorem C10_rules_embedded_upto5 : forall n r L,
  1 <= n <= 5 -> In r all_rules ->
  length L = r_width r -> NoDup L -> (forall q, In q L -> q < n) ->
  circ_den n (map (relocate L) (r_repl r)) = op_den n (r_src r, L).
Proof. exact rules_embedded. Qed.

(* ---- lifting to whole circuits: the monoid argument ------------------------------
   For ANY semantics `den` of placed gates in ANY monoid (matrices under product, in
   program order): if the rule is sound at the location of each source operation of c
   (which is what the two theorems above establish for the exact-matrix semantics),
   the pass output `rewrite r c` has the same product as c -- for every circuit. *)
Theorem C10_rule_pass_preserves_unitary :
  forall (M : Type) (mul : M -> M -> M) (one : M) (den : gop -> M),
  (forall x y z, mul x (mul y z) = mul (mul x y) z) ->
  (forall x, mul one x = x) -> (forall x, mul x one = x) ->
  forall (r : rule) (c : list gop),
  rule_sound_on M mul one den r c ->
  prod M mul one den (rewrite r c) = prod M mul one den c.
Proof. exact rewrite_preserves_prod. Qed.

(* replacing any contiguous sub-sequence by one with the same product *)
Theorem C10_replace_subsequence :
  forall (M : Type) (mul : M -> M -> M) (one : M) (den : gop -> M),
  (forall x y z, mul x (mul y z) = mul (mul x y) z) -> (forall x, mul one x = x) ->
  forall s u u' t, prod M mul one den u = prod M mul one den u' ->
  prod M mul one den (s ++ u ++ t) = prod M mul one den (s ++ u' ++ t).
Proof. exact prod_replace_sub. Qed.

(* ---- (i) postconditions: the source gate is gone (count 0), every operation of the
   output is an untouched non-source operation of the input or has one of the
   advertised kinds, and the gate count grows by (|replacement|-1) per occurrence --- *)
Theorem C10_rule_CHToCNOTPass_post : rule_post rule_CHToCNOTPass G_CH [k_ G_CX; k_ (G_RY 0)].
Proof. exact CHToCNOT_post. Qed.
Theorem C10_rule_CNOTToCHPass_post : rule_post rule_CNOTToCHPass G_CX [k_ G_CH; k_ (G_RY 0)].
Proof. exact CNOTToCH_post. Qed.
Theorem C10_rule_CNOTToCYPass_post : rule_post rule_CNOTToCYPass G_CX [k_ G_CY; k_ G_S; k_ G_Sdg].
Proof. exact CNOTToCY_post. Qed.
Theorem C10_rule_CNOTToCZPass_post : rule_post rule_CNOTToCZPass G_CX [k_ G_CZ; k_ G_H].
Proof. exact CNOTToCZ_post. Qed.
Theorem C10_rule_CYToCNOTPass_post : rule_post rule_CYToCNOTPass G_CY [k_ G_CX; k_ G_S; k_ G_Sdg].
Proof. exact CYToCNOT_post. Qed.
Theorem C10_rule_CZToCNOTPass_post : rule_post rule_CZToCNOTPass G_CZ [k_ G_CX; k_ G_H].
Proof. exact CZToCNOT_post. Qed.
Theorem C10_rule_SwapToCNOTPass_post : rule_post rule_SwapToCNOTPass G_SWAP [k_ G_CX].
Proof. exact SwapToCNOT_post. Qed.

(* a qudit no source operation touches keeps its timeline; the pass is idempotent *)
Theorem C10_rule_untouched_qudit : forall r c q,
  rule_wf r = true ->
  (forall o, In o c -> is_src r o = true -> length (snd o) = r_width r /\ ~ In q (snd o)) ->
  proj gop snd q (rewrite r c) = proj gop snd q c.
Proof. exact rewrite_untouched_qudit. Qed.
Theorem C10_rule_idempotent : forall r c,
  rule_src_free r = true -> rewrite r (rewrite r c) = rewrite r c.
Proof. exact rewrite_idempotent. Qed.

(* non-vacuity: a concrete circuit with two source occurrences (one with reversed
   control/target) is really rewritten, and the exact 3-qubit matrices agree *)
Example C10_rule_nonvacuous :
  let c := [(G_H, [0]); (G_CH, [2; 0]); (G_T, [1]); (G_CH, [0; 1])] in
  rewrite rule_CHToCNOTPass c =
    [(G_H, [0]); (G_RY 3, [0]); (G_CX, [2; 0]); (G_RY (-3), [0]); (G_T, [1]);
     (G_RY 3, [1]); (G_CX, [0; 1]); (G_RY (-3), [1])]
  /\ circ_den 3 (rewrite rule_CHToCNOTPass c) = circ_den 3 c
  /\ count_kind (gate_kind G_CH) c = 2.
Proof. split; [reflexivity | split; [apply Meqb_eq; vm_compute; reflexivity | reflexivity]]. Qed.

(* ======================================================================================
   Family (iii): numerical passes with an accept test -- decision skeletons
   (pass/ScanSkel.v) over ORACLES: `cost v g` is the cost, against the original target,
   of structure g with the parameters produced by instantiate call number v (v = 0: the
   input's own parameters); integers in an arbitrary unit.  Every theorem holds for every
   oracle behaviour.  `Ok s` = the pass returned; s_grid/s_ver = the committed circuit.
   ====================================================================================== *)

(* ScanningGateRemovalPass, both directions, any filter, any iteration sequence: the
   committed circuit is the input or was evaluated below the threshold *)
Theorem C10_scan_invariant : forall cost thr left filt orig its s,
  scan cost thr left filt orig its = Ok s ->
  (s_grid s = orig /\ s_ver s = 0) \/ (1 <= s_ver s /\ (cost (s_ver s) (s_grid s) < thr)%Z).
Proof. exact scan_invariant. Qed.

(* removal passes only remove: the result's operations are a subsequence of the input's *)
Theorem C10_removal_monotone : forall cost thr left filt orig its s,
  scan cost thr left filt orig its = Ok s ->
  sub (all_ops (s_grid s)) (all_ops orig) /\ num_ops (s_grid s) <= num_ops orig.
Proof. exact scan_monotone. Qed.

(* index compensation when scanning from the left: on every well-formed circuit the pop
   at (cycle - (circuit.num_cycles - working_copy.num_cycles), op.location[0]) never
   raises and removes exactly the operation being visited -- the whole run coincides with
   the reference run that deletes operations by identity (prune) *)
Theorem C10_scan_left_intended : forall cost thr filt orig,
  wf orig ->
  scan cost thr true filt orig (iter_fwd orig)
  = ref_result orig (ref_loop cost thr filt orig (iter_fwd orig) [] 0 0).
Proof. exact scan_left_intended. Qed.
Theorem C10_scan_left_never_raises : forall cost thr filt orig,
  wf orig -> scan cost thr true filt orig (iter_fwd orig) <> IndexErr.
Proof. exact scan_left_never_raises. Qed.

(* TreeScanningGateRemovalPass: invariant + monotonicity for every depth and direction *)
Theorem C10_treescan_invariant : forall cost thr comp d orig its s,
  treescan cost thr comp d orig its = Ok s ->
  ((s_grid s = orig /\ s_ver s = 0) \/ (1 <= s_ver s /\ (cost (s_ver s) (s_grid s) < thr)%Z))
  /\ sub (all_ops (s_grid s)) (all_ops orig) /\ num_ops (s_grid s) <= num_ops orig.
Proof. exact treescan_invariant. Qed.

(* ... but its right-to-left scan does NOT remove the intended operation (finding C10.T1):
   the faithful model commits a circuit that lost operation 1 while visiting operation 2,
   and raises IndexError on a three-gate line.  Both replay on the real pass. *)
Definition C10_treescan_right_intended_full : Prop := forall cost thr d orig,
  wf orig -> 1 <= d -> exists rm v k,
  treescan cost thr true d orig (rev (iter_fwd orig)) = Ok (mkSt (prune rm orig) v k).
Theorem C10_treescan_right_intended_refuted :
  treescan cost12 5 true 1 w4 (rev (iter_fwd w4)) = Ok (mkSt [[(0, [0])]; [(2, [0])]] 2 4)
  /\ treescan cost0 5 true 1 w3 (rev (iter_fwd w3)) = IndexErr /\ wf w4 /\ wf w3.
Proof. exact (conj treescan_right_wrong_operation (conj treescan_right_raises (conj wf_w4 wf_w3))). Qed.

(* the one-line guard of fixes/C10.T1.patch repairs both witnesses *)
Theorem C10_treescan_right_guarded_witnesses :
  treescan cost12 5 false 1 w4 (rev (iter_fwd w4)) = Ok (mkSt [[(0, [0])]; [(1, [0])]] 2 4)
  /\ treescan cost0 5 false 1 w3 (rev (iter_fwd w3)) = Ok (mkSt [] 3 3).
Proof. exact treescan_right_guarded. Qed.

(* ExhaustiveGateRemovalPass: for every structure-deduplication that only drops candidates
   the frontier loop terminates, and commits the input or an accepted, strictly smaller one *)
Theorem C10_exhaustive_invariant : forall cost thr dedup score,
  (forall n l x, In x (dedup n l) -> In x l) ->
  forall orig,
  exhaustive cost thr dedup score orig <> None /\
  forall g v, exhaustive cost thr dedup score orig = Some (g, v) ->
  (g = orig /\ v = 0) \/
  (1 <= v /\ (cost v g < thr)%Z /\ sub (all_ops g) (all_ops orig) /\ num_ops g < num_ops orig).
Proof. intros cost thr dedup score H orig. exact (conj (exhaustive_total cost thr dedup score H orig) (exhaustive_invariant cost thr dedup score H orig)). Qed.

(* IterativeScanningGateRemovalPass (narrow circuits): rounds compose against the same
   original target; num_ops+1 rounds always suffice *)
Theorem C10_iterative_invariant : forall cost thr left filt fuel orig g' ver',
  iter_scan cost thr fuel left filt orig 0 0 = Some (Ok (g', ver')) ->
  ((g' = orig /\ ver' = 0) \/ (1 <= ver' /\ (cost ver' g' < thr)%Z)) /\ sub (all_ops g') (all_ops orig).
Proof. intros cost thr left filt fuel orig g' ver' H.
  exact (iter_scan_invariant cost thr orig left filt fuel orig 0 0 g' ver' H (or_introl (conj eq_refl eq_refl)) (sub_refl _)). Qed.
Theorem C10_iterative_terminates : forall cost thr left filt fuel g ver offs,
  num_ops g < fuel -> iter_scan cost thr fuel left filt g ver offs <> None.
Proof. exact iter_scan_total. Qed.

(* SubstitutePass: the circuit it leaves is the input or an accepted candidate *)
Theorem C10_substitute_invariant : forall (C : Type) cost thr subst (orig : C) points k c' k',
  subst_loop C cost thr subst k orig points = (c', k') ->
  c' = orig \/ exists v, 1 <= v /\ (cost v c' < thr)%Z.
Proof. intros C cost thr subst orig points k c' k' H.
  exact (subst_invariant C cost thr subst orig points k orig c' k' H (or_introl eq_refl)). Qed.

(* Rebase2QuditGatePass / AutoRebase2QuditGatePass: when the pass returns (fuel = the loop
   ended) no source gate remains; every gate kind present was in the input or belongs to
   a template (new gates + the single-qudit gate); the committed circuit is the input up
   to fold/unfold round trips (every attempt failed: unchanged) or an accepted candidate
   up to fold/unfold.  Hypotheses = what fold/unfold/replace_with_circuit do to counts. *)
Theorem C10_rebase_post :
  forall (C T : Type) cost thr count group replace unfold templates overdrive max_depth max_retries,
  (forall j c, count j (group c) = count j c) ->
  (forall j c, count j (unfold c) = count j c) ->
  (forall j k c (t : T), count j (replace k c t) <= count j c) ->
  forall (kinds : C -> nat -> Prop) (tkinds : T -> nat -> Prop),
  (forall c n, kinds (unfold (group c)) n -> kinds c n) ->
  (forall k c t n, kinds (replace k (group c) t) n -> kinds c n \/ tkinds t n) ->
  forall fuel js orig s',
  rebase_all C T cost thr count group replace unfold templates overdrive max_depth max_retries fuel js
             (mkR C orig 0 0 0 false) = Some s' ->
  (forall j, In j js -> count j (r_c C s') = 0)
  /\ rinv C cost thr group unfold orig s'
  /\ (forall n, kinds (r_c C s') n -> kinds orig n \/ exists t m, In (t, m) (templates ++ [overdrive]) /\ tkinds t n).
Proof. exact rebase_post. Qed.

(* non-vacuity for (iii): a well-formed two-qubit circuit on which the left scan, with a
   cost oracle accepting the 2nd and 3rd candidates, removes exactly the 2nd and 3rd visited
   operations; the hypotheses of C10_scan_left_intended hold *)
Example C10_scan_nonvacuous :
  let g : grid := [[(0, [0]); (1, [1])]; [(2, [0; 1])]; [(3, [1])]] in
  let cost := fun (k : nat) (_ : grid) => if Nat.eqb k 2 || Nat.eqb k 3 then 1%Z else 9%Z in
  wf g /\ scan cost 5 true (fun _ => true) g (iter_fwd g) = Ok (mkSt [[(0, [0])]; [(3, [1])]] 3 4).
Proof.
  split; [|vm_compute; reflexivity].
  split.
  - intros c H. simpl in H. intuition (subst; discriminate).
  - repeat constructor; simpl; intuition discriminate.
  - intros o H. simpl in H. intuition (subst; discriminate).
  - intros c H. simpl in H. intuition (subst; repeat constructor; simpl; intuition discriminate).
Qed.

(* ======================================================================================
   Family (ii): structural / utility passes -- list models (pass/Util.v)
   ====================================================================================== *)
(* UnfoldPass: unfolding is idempotent, leaves block-free circuits alone, respects program
   order, and a qudit outside every block keeps its timeline *)
Theorem C10_unfold_idempotent : forall c, unfold_all (as_bops (unfold_all c)) = unfold_all c.
Proof. exact unfold_idempotent. Qed.
Theorem C10_unfold_noop_without_blocks : forall l, unfold_all (as_bops l) = l.
Proof. exact unfold_leaves. Qed.
Theorem C10_unfold_program_order : forall a b, unfold_all (a ++ b) = unfold_all a ++ unfold_all b.
Proof. exact unfold_app. Qed.
Theorem C10_unfold_untouched_qudit : forall c q,
  (forall loc body, In (Blk loc body) c -> in_range (length loc) (Blk (seq 0 (length loc)) body) = true /\ ~ In q loc) ->
  proj leaf snd q (unfold_all c) =
  proj leaf snd q (flat_map (fun o => match o with Leaf id loc => [(id, loc)] | Blk _ _ => [] end) c).
Proof. exact unfold_untouched_qudit. Qed.

(* GroupSingleQuditGatePass on a qudit timeline: nothing lost, order kept, groups are
   non-empty, maximal and contain single-qudit gates only *)
Theorem C10_group_single_timeline : forall tl,
  ungroup (group_single tl) = map fst tl /\ well_grouped false (group_single tl) = true
  /\ (forall ids id, In (Group ids) (group_single tl) -> In id ids -> In (id, true) tl).
Proof. intros tl. exact (conj (group_single_ungroup tl) (conj (group_single_well tl) (group_single_only_singles tl))). Qed.

(* ToU3Pass / ToVariablePass / BlockConversionPass: operations stay where they are; if the
   converted gate denotes the same matrix (calc_params/get_params contract, an oracle
   here) the circuit's product is unchanged -- for any monoid semantics *)
Theorem C10_convert_timelines : forall (op : Type) (loc : op -> list nat) selected conv,
  (forall o, loc (conv o) = loc o) ->
  forall c q, map loc (proj op loc q (convert op selected conv c)) = map loc (proj op loc q c).
Proof. exact convert_timeline_shape. Qed.
Theorem C10_convert_preserves_unitary : forall (op : Type) selected conv (M : Type) (mul : M -> M -> M) (one : M) (den : op -> M),
  (forall o, selected o = true -> den (conv o) = den o) ->
  forall c, fold_right (fun o acc => mul (den o) acc) one (convert op selected conv c)
          = fold_right (fun o acc => mul (den o) acc) one c.
Proof. exact convert_preserves_product. Qed.

(* CompressPass: an operation lands after everything earlier on its qudits, so every
   qudit sees its operations in the original order *)
Theorem C10_compress_order : forall c f k x j y,
  In (k, x) (compress_aux f c) ->
  (forall q, In q (snd x) -> used f q <= k) /\
  (forall pre post, compress_aux f c = pre ++ (k, x) :: post -> In (j, y) post ->
     (exists q, In q (snd x) /\ In q (snd y)) -> k < j).
Proof. exact compress_order. Qed.

Example C10_util_nonvacuous :
  unfold_all [Leaf 0 [2]; Blk [2; 0] [Leaf 1 [1]; Blk [1; 0] [Leaf 2 [0; 1]]]; Leaf 3 [1]]
    = [(0, [2]); (1, [0]); (2, [0; 2]); (3, [1])]
  /\ group_single [(0, true); (1, true); (2, false); (3, true)] = [Group [0; 1]; Multi 2; Group [3]]
  /\ compress [(0, [0]); (1, [1]); (2, [0; 1]); (3, [2])] = [(0, (0, [0])); (0, (1, [1])); (1, (2, [0; 1])); (0, (3, [2]))].
Proof. repeat split; reflexivity. Qed.

(* ======================================================================================
   Family (iv): identities behind the analytic decompositions (pass/Analytic.v), for
   EVERY ring with the stated elements; the numerical factorisations are hypotheses.
   ====================================================================================== *)
(* ZXZXZDecomposition: RZ(p).SX.RZ(t).SX.RZ(l) = e^{-i(p+l)/2} U3(t-pi, p-pi, l) for all
   angles (a, b, c = e^{il/2}, e^{it/2}, e^{ip/2}; i^2 = -1; h = 1/2) *)
Theorem C10_zxzxz_form : forall (R : Type) r0 r1 radd rmul rsub ropp,
  ring_theory r0 r1 radd rmul rsub ropp (@eq R) ->
  forall i h a a' b b' c c' : R,
  rmul i i = ropp r1 -> radd h h = r1 -> rmul a a' = r1 -> rmul c c' = r1 ->
  mmul2 R radd rmul (RZm R r0 c c') (mmul2 R radd rmul (SXm R r1 radd rmul ropp i h)
    (mmul2 R radd rmul (RZm R r0 b b') (mmul2 R radd rmul (SXm R r1 radd rmul ropp i h) (RZm R r0 a a'))))
  = scale2 R rmul (rmul c' a')
      (U3m R rmul ropp (sin_t R rmul rsub ropp i h b b') (ropp (cos_t R radd rmul h b b'))
           (ropp (rmul c c)) (rmul a a)).
Proof. exact zxzxz_form. Qed.

(* QSD / Block-ZXZ demultiplexing and the QSD recombination: block algebra over any
   (non-commutative) ring of blocks; the Schur/eig/CS routines' contracts are hypotheses *)
Theorem C10_qsd_demultiplex : forall (B : Type) b0 b1 badd bmul,
  (forall x y z, bmul x (bmul y z) = bmul (bmul x y) z) ->
  (forall x, bmul b1 x = x) -> (forall x, bmul x b1 = x) ->
  (forall x, badd b0 x = x) -> (forall x, badd x b0 = x) ->
  (forall x, bmul b0 x = b0) -> (forall x, bmul x b0 = b0) ->
  forall u1 u2 u2' V V' D D' D2 : B,
  bmul V (bmul D2 V') = bmul u1 u2' -> bmul D D = D2 -> bmul D' D = b1 -> bmul V V' = b1 -> bmul u2' u2 = b1 ->
  bmmul B badd bmul (bdiag B b0 V V)
    (bmmul B badd bmul (bdiag B b0 D D') (bdiag B b0 (W B bmul u2 V' D) (W B bmul u2 V' D)))
  = bdiag B b0 u1 u2.
Proof. exact demultiplex. Qed.

Theorem C10_qsd_recombine : forall (B : Type) b0 b1 badd bmul,
  (forall x y z, bmul x (bmul y z) = bmul (bmul x y) z) ->
  (forall x, bmul b1 x = x) -> (forall x, bmul x b1 = x) ->
  (forall x, badd b0 x = x) -> (forall x, badd x b0 = x) ->
  (forall x, bmul b0 x = b0) -> (forall x, bmul x b0 = b0) ->
  forall (U CS : BM B) u1 u2 u2' Vu Vu' Du Du' D2u v1 v2 v2' Vv Vv' Dv Dv' D2v,
  U = bmmul B badd bmul (bdiag B b0 u1 u2) (bmmul B badd bmul CS (bdiag B b0 v1 v2)) ->
  bmul Vu (bmul D2u Vu') = bmul u1 u2' -> bmul Du Du = D2u -> bmul Du' Du = b1 -> bmul Vu Vu' = b1 -> bmul u2' u2 = b1 ->
  bmul Vv (bmul D2v Vv') = bmul v1 v2' -> bmul Dv Dv = D2v -> bmul Dv' Dv = b1 -> bmul Vv Vv' = b1 -> bmul v2' v2 = b1 ->
  bmmul B badd bmul
    (bmmul B badd bmul (bdiag B b0 Vu Vu) (bmmul B badd bmul (bdiag B b0 Du Du')
        (bdiag B b0 (W B bmul u2 Vu' Du) (W B bmul u2 Vu' Du))))
    (bmmul B badd bmul CS
        (bmmul B badd bmul (bdiag B b0 Vv Vv) (bmmul B badd bmul (bdiag B b0 Dv Dv')
            (bdiag B b0 (W B bmul v2 Vv' Dv) (W B bmul v2 Vv' Dv))))) = U.
Proof. exact qsd_recombine. Qed.

(* non-vacuity: the field with five elements satisfies the ZXZXZ hypotheses with i = 2,
   1/2 = 3 and non-trivial units; the integers (1x1 blocks) satisfy the demultiplexing
   hypotheses with D = -1 *)
Example C10_analytic_nonvacuous :
  ring_theory f0 f1 f5_add f5_mul f5_sub f5_opp (@eq F5)
  /\ f5_mul f2 f2 = f5_opp f1 /\ f5_add f3 f3 = f1 /\ f5_mul f2 f3 = f1 /\ f5_mul f4 f4 = f1
  /\ (let V := 1%Z in let D := (-1)%Z in
      Z.mul V (Z.mul 1 V) = Z.mul (-1) (-1) /\ Z.mul D D = 1%Z /\
      bmmul Z Z.add Z.mul (bdiag Z 0%Z V V)
        (bmmul Z Z.add Z.mul (bdiag Z 0%Z D D) (bdiag Z 0%Z (W Z Z.mul (-1)%Z V D) (W Z Z.mul (-1)%Z V D)))
      = bdiag Z 0%Z (-1)%Z (-1)%Z).
Proof. split; [exact F5_ring | repeat split; reflexivity]. Qed.

(* MGDPass: the location handed to the target-last multiplexor decomposition, for a target
   at ANY position t of the gate: target last, select qudits in their original relative
   order, a permutation of the location.  The cyclic rotation coincides with it only for a
   first or last target and permutes the selects in between (seeded change C10-A). *)
Theorem C10_mgd_location : forall t loc, t < length loc ->
  removelast (mgd_loc t loc) = selects t loc /\ last (mgd_loc t loc) O = nth t loc O
  /\ Permutation.Permutation loc (mgd_loc t loc).
Proof. exact mgd_loc_spec. Qed.
Theorem C10_mgd_rotation_only_at_the_ends :
  (forall loc, loc <> [] -> rot_loc 0 loc = mgd_loc 0 loc)
  /\ (forall loc, loc <> [] -> rot_loc (length loc - 1) loc = mgd_loc (length loc - 1) loc)
  /\ removelast (rot_loc 1 [7; 8; 9]) <> selects 1 [7; 8; 9].
Proof. exact (conj rot_loc_first (conj rot_loc_last rot_loc_middle_refuted)). Qed.
(* one level of the decomposition, on each branch of the first select qudit: the emitted
   R(l); CNOT; R(r); CNOT acts as R(l+r) resp. R(l-r) (R = RY or RZ, X R(a) X = R(-a)) *)
Theorem C10_multiplexor_branches : forall (M : Type) (mul : M -> M -> M) (one X : M) (R : Z -> M),
  (forall x y z, mul x (mul y z) = mul (mul x y) z) ->
  (forall a b, mul (R a) (R b) = R (a + b)%Z) ->
  (forall a, mul X (mul (R a) X) = R (- a)%Z) ->
  forall l r, mul (R r) (R l) = R (l + r)%Z /\ mul X (mul (R r) (mul X (R l))) = R (l - r)%Z.
Proof. intros M mul one X R A B C l r. exact (conj (mpx_branch0 M mul R B l r) (mpx_branch1 M mul X R A B C l r)). Qed.
