(* C02 - compile() output is executable on the target machine model.
   Only statements closed by `exact`; proofs live in wf/AbsThm.v, wf/Check.v, wf/WfThm.v,
   wf/IsCompatThm.v and the generated gen/WorkflowThms*.v (one reflective check per configuration of
   build_workflow: input kind x level x error_threshold x seed x model class, see gen/Workflows.v).

   wsem c w s s' k : the abstract run relation of workflow tree w over the finite state of wf/State.v,
   for every predicate outcome, every number of loop iterations and every family of block runs; the leaf
   contracts (wf/Contracts.v, each classified ProvedElsewhere / AssumedAndTested) are the hypotheses. *)
From Coq Require Import List Bool Arith String.
Import ListNotations.
From BQ Require Import wf.WfAst wf.State wf.Contracts wf.Abs wf.Run wf.Check wf.Spec wf.WfThm.
From BQ Require Import wf.IsCompat wf.IsCompatThm gen.Workflows.
Local Open Scope nat_scope.

(* ---- the workflow trees ------------------------------------------------------------------------------ *)
(* full statement: every branch of every generated workflow, from every admissible input class, ends with
   native multi-qudit gates, coupled, native single-qudit gates, placed on the full machine, no blocks *)
Definition C02_workflow_compatible_full : Prop :=
  forall n m w, In (n, m, w) wf_table ->
  forall s s' k, In s (full_pre m) -> wsem (m_cfg m) w s s' k -> c02_post_full s' = true.

(* proved at FULL strength for every configuration outside the four exception classes of wf/Spec.v *)
Theorem C02_workflow_compatible : forall n m w, In (n, m, w) wf_table -> c02_exns m = [] ->
  forall s s' k, In s (full_pre m) -> wsem (m_cfg m) w s s' k -> c02_post_full s' = true.
Proof. exact c02_workflow_full. Qed.

(* proved for ALL configurations with the exceptions carved out (c02_pre drops the input class "machine wider
   than the input" where no ApplyPlacement runs; c02_post drops the violated conjunct) *)
Theorem C02_workflow_compatible_partial : forall n m w, In (n, m, w) wf_table ->
  forall s s' k, In s (c02_pre m) -> wsem (m_cfg m) w s s' k -> c02_post m s' = true.
Proof. exact c02_workflow_partial. Qed.

(* what "relative to the contracts" means: for ANY concrete semantics [cexec] that refines the abstract one
   (every leaf meets its contract of wf/Contracts.v, control passes and predicates behave as modelled) and any
   reading [executable] implied by the abstract postcondition, every output is executable *)
Theorem C02_full_from_contracts : forall (conc : Type) (alpha : conc -> astate)
  (cexec : config -> pass -> conc -> conc -> Prop) (executable : conc -> Prop),
  (forall c w x x', cexec c w x x' -> exists k, wsem c w (alpha x) (alpha x') k) ->
  (forall x', c02_post_full (alpha x') = true -> executable x') ->
  forall n m w, In (n, m, w) wf_table -> c02_exns m = [] ->
  forall x x', In (alpha x) (full_pre m) -> cexec (m_cfg m) w x x' -> executable x'.
Proof. exact c02_full_from_contracts. Qed.

(* the same through the executable semantics: whatever trace of outcomes is replayed *)
Theorem C02_checker_sound : forall c w pre post, wf_establishes c w pre post = true ->
  forall s outcomes s' k, In s pre -> run c w outcomes s = Some (s', k) -> post s' = true.
Proof. exact wf_establishes_run. Qed.

(* every exception class is a REFUTATION of the full statement in the faithful model: a machine-checked run *)
Theorem C02_exceptions_refuted : forall n m w, In (n, m, w) wf_table -> forall e, In e (c02_exns m) ->
  exists s s' k, In s (full_pre m) /\ exn_cand m e s = true /\ wsem (m_cfg m) w s s' k /\ exn_bad e s' = true.
Proof. exact c02_exceptions_refuted. Qed.

(* D10 (state-preparation / state-map workflows had no single-qudit retarget stage: C02_stateprep_refuted until repo
   commit df47266) is fixed: the state workflows are now covered by the theorems above with sq_native in the post *)
Example C02_stateprep_now_native :
  has_entry (fun x => let '(_, m, w) := x in
     is_state m && wf_establishes (m_cfg m) w (c02_pre m) (fun s => sqn s && mqn s && is_d0 s)) = true.
Proof. vm_compute. reflexivity. Qed.

(* a gate on more than two qudits in the model's gate set: a branch ends with an uncoupled multi-qudit gate *)
Theorem C02_many_model_refuted : forall n m w, In (n, m, w) wf_table -> many_model (m_cfg m) = true ->
  exists s s' k, In s (full_pre m) /\ wsem (m_cfg m) w s s' k /\ cpl s' = false /\ c02_post_full s' = false.
Proof. exact c02_many_refuted. Qed.

(* level 4 on a one-qudit circuit, and every unitary / state / state-system workflow, with a machine wider
   than the input: no ApplyPlacement runs, the output keeps the input's width *)
Theorem C02_noplacement_refuted : forall n m w, In (n, m, w) wf_table ->
  negb (is_circuit m) || Nat.eqb (m_level m) 4 = true ->
  exists s s' k, In s (full_pre m) /\ noplace_class m s = true /\ wsem (m_cfg m) w s s' k
                 /\ fullw s' = false /\ c02_post_full s' = false.
Proof. exact c02_noplacement_refuted. Qed.

(* non-vacuity: the table has configurations of each kind, with and without exceptions *)
Example C02_table_nonvacuous :
  has_entry (fun x => match c02_exns (snd (fst x)) with [] => true | _ => false end) = true
  /\ has_entry (fun x => is_state (snd (fst x))) = true
  /\ has_entry (fun x => many_model (m_cfg (snd (fst x)))) = true
  /\ has_entry (fun x => is_circuit (snd (fst x)) && Nat.eqb (m_level (snd (fst x))) 4) = true
  /\ Nat.leb 100 (List.length wf_table) = true.
Proof. vm_compute. repeat split; reflexivity. Qed.

(* non-vacuity: an exception-free configuration has admissible inputs that reach a final state *)
Example C02_run_nonvacuous :
  has_entry (fun x => let '(_, m, w) := x in
     match c02_exns m with [] => wf_refutes (m_cfg m) w (full_pre m) (fun s => negb (w1 s) && negb (nomany s)) c02_post_full
                      | _ => false end) = true.
Proof. vm_compute. reflexivity. Qed.

(* ---- MachineModel.is_compatible -------------------------------------------------------------------------- *)
(* the code (with GateSet containment, Circuit.coupling_graph, the CouplingGraph edge normalisation and the
   either-orientation edge test of repo commit cf72da2) answers exactly the independent check -- width, native
   gates, every interacting pair coupled after placement, radixes -- for ALL circuits, models and placements *)
Theorem C02_is_compatible_spec : forall m c opl b,
  is_compatible m c opl = Some b -> b = spec m c (placement_of c opl).
Proof. exact is_compatible_spec. Qed.

Theorem C02_is_compatible_spec_default : forall m c b,
  is_compatible m c None = Some b -> b = spec m c (seq 0 (cw c)).
Proof. exact is_compatible_spec_default. Qed.

(* non-vacuity: a placement that swaps two coupled qudits (answered False before the fix), an uncoupled one *)
Example C02_is_compatible_placement_example :
  is_compatible ex_model ex_circ (Some [1; 0]) = Some true /\ spec ex_model ex_circ [1; 0] = true
  /\ is_compatible ex_model ex_circ (Some [0; 2]) = Some false /\ spec ex_model ex_circ [0; 2] = false.
Proof. exact is_compatible_placement_example. Qed.

(* The code as it is since repo commit 3be8a2b (finding C02-F5 repaired): placeholders are set aside, exactly as the
   property says ("measurement, barrier and reset placeholders aside") - for every circuit, model, placement and
   placeholder predicate the verdict is the independent check on the circuit without its placeholders. *)
Theorem C02_is_compatible_placeholders_aside : forall ph m c opl b,
  is_compatible_ph ph m c opl = Some b -> b = spec m (strip ph c) (placement_of c opl).
Proof. exact is_compatible_ph_spec. Qed.

Theorem C02_is_compatible_ph_total : forall ph m c opl,
  wf_pl m c (placement_of c opl) = true -> wf_circ c = true -> exists b, is_compatible_ph ph m c opl = Some b.
Proof. exact is_compatible_ph_total. Qed.

Theorem C02_is_compatible_ph_conservative : forall m c opl,
  is_compatible_ph (fun _ => false) m c opl = is_compatible m c opl.
Proof. exact is_compatible_ph_none. Qed.

Example C02_is_compatible_ph_example :
  let ph := fun g => (g =? 8) || (g =? 9) in
  let ops := [{| og := 0; oloc := [0; 1] |}; {| og := 9; oloc := [0; 1; 2] |}; {| og := 8; oloc := [2] |}] in
  is_compatible_ph ph ex_model {| cw := 3; crad := [2; 2; 2]; cops := ops |} None = Some true
  /\ is_compatible_ph ph ex_model {| cw := 3; crad := [2; 2; 2]; cops := ops ++ [{| og := 0; oloc := [0; 2] |}] |} None = Some false
  /\ is_compatible_ph ph ex_model {| cw := 3; crad := [2; 2; 2]; cops := ops ++ [{| og := 0; oloc := [0; 2] |}] |} (Some [1; 0; 2]) = Some true.
Proof. exact is_compatible_ph_example. Qed.

(* regression witness: the code before 3be8a2b (no placeholder case) rejected an executable circuit with a barrier *)
Example C02_is_compatible_placeholder_old_refuted :
  let c := {| cw := 2; crad := [2; 2]; cops := [{| og := 0; oloc := [0; 1] |}; {| og := 9; oloc := [0; 1] |}] |} in
  is_compatible ex_model c None = Some false /\ spec ex_model (strip (Nat.eqb 9) c) [0; 1] = true
  /\ is_compatible_ph (Nat.eqb 9) ex_model c None = Some true.
Proof. exact is_compatible_placeholder_old_refuted. Qed.

Theorem C02_is_compatible_total : forall m c opl,
  wf_pl m c (placement_of c opl) = true -> wf_circ c = true -> exists b, is_compatible m c opl = Some b.
Proof. exact is_compatible_total. Qed.

(* ---- replace filters ----------------------------------------------------------------------------------------- *)
Theorem C02_replace_filter_sound : forall m fully new old loc fn,
  is_respecting m old loc fully = true ->
  lt_respecting m fully new (Some old) loc fn = true ->
  is_respecting m new loc fully = true.
Proof. exact replace_filter_sound. Qed.

(* what "respecting" means: native multi-qudit gates (all gates when fully), every interacting pair of the block
   coupled at its location -- for every block and every location (the model follows repo commit 4f34095; before it
   the raw tuple was tested and the statement was refuted for locations not in increasing order) *)
Theorem C02_is_respecting_spec : forall m b loc fully,
  is_respecting m b loc fully =
    forallb (fun o => (List.length (oloc o) <? 2) || gmem (og o) (mgates m)) (cops b)
    && (negb fully || forallb (fun o => (2 <=? List.length (oloc o)) || gmem (og o) (mgates m)) (cops b))
    && forallb (fun e => coupled m (nth (fst e) loc 0) (nth (snd e) loc 0)) (circ_edges b).
Proof. exact is_respecting_spec. Qed.

Example C02_is_respecting_location_example :
  is_respecting ex_model ex_circ [1; 0] false = true /\ is_respecting ex_model ex_circ [0; 1] false = true
  /\ is_respecting ex_model ex_circ [0; 2] false = false /\ coupled ex_model 1 0 = true.
Proof. exact is_respecting_location_example. Qed.

Example C02_filter_nonvacuous :
  let good := {| cw := 2; crad := [2; 2]; cops := [{| og := 0; oloc := [0; 1] |}] |} in
  let bad := {| cw := 2; crad := [2; 2]; cops := [{| og := 7; oloc := [0; 1] |}] |} in
  is_respecting ex_model good [0; 1] false = true /\ is_respecting ex_model good [0; 2] false = false
  /\ lt_respecting ex_model false bad (Some good) [0; 1] true = false
  /\ lt_respecting ex_model false bad (Some bad) [0; 1] false = true.
Proof. repeat split; reflexivity. Qed.
