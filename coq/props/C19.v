(* C19 - cost functions and instantiation are faithful to circuit semantics.
   Only statements closed by `exact`; the proofs live in cost/MultiStartThm.v
   (arg-min / structure, for every oracle) and cost/HSThm.v (cost algebra). *)
From Coq Require Import List Arith ZArith Bool Reals.
From Coquelicot Require Import Coquelicot.
Import ListNotations.
From BQ Require Import cost.MultiStart cost.MultiStartThm cost.HS cost.HSThm.
Local Open Scope nat_scope.

(* ===================== multi-start instantiation ========================== *)
(* For every start generator, instantiater and ranking cost whose `<` is the
   strict part of a total preorder (floats without NaN): if
   multi_start_instantiate_inplace returns normally, the parameters now stored in
   the circuit are those of a candidate `p` of the list [instantiate(x0) for x0 in
   starts]; every earlier candidate costs strictly more and no later candidate
   costs less (Python's stable sort, element [0]). *)
Theorem C19_multistart_argmin :
  forall (X K : Type) (ltb : K -> K -> bool), strict_weak K ltb ->
  forall target_ok gen inst cost (c c' : circuit X) num_starts,
  multi_start X K ltb target_ok gen inst cost c num_starts = Ok c' ->
  exists n p, num_starts = Some n /\ (0 < n)%Z /\ target_ok = true /\
    first_argmin X K ltb cost p (List.map inst (gen (Z.to_nat n))) /\
    set_params X c p = Ok c' /\ params_of X c' = p.
Proof. exact multistart_argmin. Qed.

(* hence it is a member of the list and no candidate is cheaper *)
Theorem C19_multistart_least :
  forall (X K : Type) (ltb : K -> K -> bool), strict_weak K ltb ->
  forall cost l p, choose X K ltb cost l = Ok p ->
  In p l /\ forall q, In q l -> ltb (cost q) (cost p) = false.
Proof. exact choose_least. Qed.

(* with one start the result is that start's result (no assumption on `<`) *)
Theorem C19_multistart_single :
  forall (X K : Type) (ltb : K -> K -> bool) gen inst cost (c : circuit X) s,
  gen 1 = [s] ->
  multi_start X K ltb true gen inst cost c (Some 1%Z) = set_params X c (inst s).
Proof. exact multistart_single. Qed.

(* the only mutation is set_params: same operations (gate, arity, location) in the
   same order, every op keeps as many parameters as its gate takes *)
Theorem C19_structure_preserved :
  forall (X K : Type) (ltb : K -> K -> bool)
    seed_ok target_ok (order : list (instantiater X K)) m gen (c c' : circuit X) ms,
  instantiate X K ltb seed_ok target_ok order m gen c ms = Ok c' ->
  List.map (@shape X) c' = List.map (@shape X) c /\ length c' = length c /\
  List.Forall (fun o : op X => length (params o) = gnp o) c'.
Proof. exact instantiate_structure. Qed.

Theorem C19_set_params_spec :
  forall (X : Type) (c c' : circuit X) ps,
  set_params X c ps = Ok c' ->
  List.map (@shape X) c' = List.map (@shape X) c /\ length c' = length c /\
  params_of X c' = ps /\ List.Forall (fun o : op X => length (params o) = gnp o) c'.
Proof. exact set_params_spec. Qed.

(* Circuit.instantiate: the instantiater that runs is capable of the circuit and is
   the one the `method` argument designates (first capable of instantiater_order /
   first of that name / the object passed); the kept candidate is its arg-min *)
Theorem C19_method_selection :
  forall (X K : Type) (order : list (instantiater X K)) m i,
  select X K order m = Ok i ->
  icap i = true /\
  match m with
  | MInst j => i = j
  | MNone => exists l1 l2, order = l1 ++ i :: l2 /\ forall j, In j l1 -> icap j = false
  | MName s => iname i = s /\ exists l1 l2, order = l1 ++ i :: l2 /\ forall j, In j l1 -> iname j <> s
  | MBad => False
  end.
Proof. exact select_spec. Qed.

Theorem C19_instantiate_argmin :
  forall (X K : Type) (ltb : K -> K -> bool), strict_weak K ltb ->
  forall seed_ok target_ok (order : list (instantiater X K)) m gen (c c' : circuit X) ms,
  instantiate X K ltb seed_ok target_ok order m gen c ms = Ok c' ->
  exists i n p, select X K order m = Ok i /\ icap i = true /\ ms = Some n /\ (0 < n)%Z /\
    first_argmin X K ltb (irank i) p (List.map (irun i) (gen (Z.to_nat n))) /\ params_of X c' = p.
Proof. exact instantiate_argmin. Qed.

(* the statement without the order hypothesis (what one would like for raw floats) ... *)
Definition C19_multistart_least_full : Prop :=
  forall (cost : list Z -> option Z) l p, choose Z (option Z) fltb cost l = Ok p ->
  forall q, In q l -> cost q <> None -> cost p <> None.
(* ... is false: a NaN-cost candidate in first position is kept over a finite-cost one *)
Theorem C19_multistart_nan_refuted :
  exists (cost : list Z -> option Z) (l : list (list Z)) (p q : list Z),
    choose Z (option Z) fltb cost l = Ok p /\ In q l /\ cost p = None /\ cost q = Some 0%Z.
Proof. exact choose_nan_refuted. Qed.

(* which exception, and exactly when *)
Theorem C19_multistart_errors :
  forall (X K : Type) (ltb : K -> K -> bool) target_ok gen inst cost (c : circuit X) num_starts e,
  multi_start X K ltb target_ok gen inst cost c num_starts = Err e ->
  (e = TypeError /\ (target_ok = false \/ num_starts = None)) \/
  (e = ValueError /\ exists n, num_starts = Some n /\
      ((n <= 0)%Z \/ exists p, In p (List.map inst (gen (Z.to_nat n))) /\ length p <> num_params X c)) \/
  (e = IndexError /\ exists n, num_starts = Some n /\ (0 < n)%Z /\ gen (Z.to_nat n) = []).
Proof. exact multistart_errors. Qed.

(* non-vacuity: integer costs are a strict weak order; a 3-start run with a tie keeps
   the first of the two cheapest candidates and changes parameters only *)
Example C19_multistart_nonvacuous :
  strict_weak Z Z.ltb /\
  let c := [mkop 7 2 [0] [0;0]%Z; mkop 3 0 [0;1] []; mkop 7 1 [1] [0]%Z] in
  let gen := fun _ : nat => [[1;1;1]; [2;2;2]; [3;3;3]]%Z in
  let inst := List.map (Z.mul 10) in
  let cost := fun p => match p with [10;_;_] => 5 | [20;_;_] => 2 | _ => 2 end%Z in
  multi_start Z Z Z.ltb true gen inst cost c (Some 3%Z)
    = Ok [mkop 7 2 [0] [20;20]%Z; mkop 3 0 [0;1] []; mkop 7 1 [1] [20]%Z].
Proof.
  split; [|reflexivity]. repeat split; intros.
  - apply Z.ltb_irrefl.
  - apply Z.ltb_lt in H, H0. apply Z.ltb_lt. eapply Z.lt_trans; eauto.
  - apply Z.ltb_ge in H, H0. apply Z.ltb_ge. eapply Z.le_trans; eauto.
Qed.

(* ===================== Hilbert-Schmidt cost algebra ========================= *)
(* hs_cost n U T = 1 - |tr(T^dagger U)| / n  (cost/HS.v); `unitary n U` = U^dagger U = I
   and U U^dagger = I on the n x n block; meq = entrywise equality on the block. *)
Theorem C19_cost_range : forall n U T, (0 < n)%nat -> unitary n U -> unitary n T ->
  (0 <= hs_cost n U T <= 1)%R.
Proof. exact hs_cost_range. Qed.

(* zero exactly when the circuit unitary equals the target up to a global phase *)
Theorem C19_cost_zero_iff : forall n U T, (0 < n)%nat -> unitary n U -> unitary n T ->
  (hs_cost n U T = 0%R <-> exists phi, meq n n U (scale (cis phi) T)).
Proof. exact hs_cost_zero_iff. Qed.

(* state target: cost = 1 - |<t|U|0>|^2 *)
Theorem C19_state_cost_range : forall n U t, (0 < n)%nat -> unitary n U -> unitvec n t ->
  (0 <= state_cost n U t <= 1)%R.
Proof. exact state_cost_range. Qed.

Theorem C19_state_cost_zero_iff : forall n U t, (0 < n)%nat -> unitary n U -> unitvec n t ->
  (state_cost n U t = 0%R <-> exists phi, veq n (col U 0) (vscale (cis phi) t)).
Proof. exact state_cost_zero_iff. Qed.

(* state system (columns of V are mapped to the columns of W): cost = 1 - |sum_j <w_j|U|v_j>| / k ;
   zero exactly when U v_j = e^{i phi} w_j for all j with ONE common phase *)
Theorem C19_system_cost_range : forall n k U V W, (0 < k)%nat -> unitary n U ->
  (forall j, (j < k)%nat -> unitvec n (col V j)) -> (forall j, (j < k)%nat -> unitvec n (col W j)) ->
  (0 <= sys_cost n k U V W <= 1)%R.
Proof. exact sys_cost_range. Qed.

Theorem C19_system_cost_zero_iff : forall n k U V W, (0 < k)%nat -> unitary n U ->
  (forall j, (j < k)%nat -> unitvec n (col V j)) -> (forall j, (j < k)%nat -> unitvec n (col W j)) ->
  (sys_cost n k U V W = 0%R <-> exists phi, meq n k (mmul n U V) (scale (cis phi) W)).
Proof. exact sys_cost_zero_iff. Qed.

(* residual vector [Re(U T^dagger - I); Im(U T^dagger - I)]: its squared norm is
   ||U - T||_F^2 = 2n - 2 Re tr(T^dagger U): NOT invariant under a global phase (it vanishes
   only for U = T), but it bounds the phase-invariant cost from above. *)
Theorem C19_residual_norm : forall n U T, unitary n U -> unitary n T ->
  sumsq (hs_residuals n U T) = (2 * INR n - 2 * Re (hs_overlap n U T))%R.
Proof. exact residual_norm. Qed.

Theorem C19_residual_zero_iff : forall n U T, unitary n T ->
  (sumsq (hs_residuals n U T) = 0%R <-> meq n n U T).
Proof. exact residual_zero_iff. Qed.

Theorem C19_residual_bounds_cost : forall n U T, (0 < n)%nat -> unitary n U -> unitary n T ->
  (2 * INR n * hs_cost n U T <= sumsq (hs_residuals n U T))%R.
Proof. exact residual_bounds_cost. Qed.

(* state residuals r_i = |U_i0 - t_i|^2 : they sum to ||U|0> - t||^2 *)
Theorem C19_state_residual_sum : forall n U t, (0 < n)%nat -> unitary n U -> unitvec n t ->
  fold_right Rplus 0%R (state_residuals n U t) = (2 - 2 * Re (state_overlap n U t))%R.
Proof. exact state_residual_sum. Qed.

(* the analytic gradient entry (hs_grad, with dU = the entrywise derivative of the circuit
   unitary w.r.t. one parameter) is the derivative of the cost, away from tr(T^dagger U) = 0 *)
Theorem C19_grad_is_derivative : forall n (U : R -> matrix) (dU T : matrix) (x0 : R),
  (forall i j, (i < n)%nat -> (j < n)%nat -> is_derive (fun x => Re (U x i j)) x0 (Re (dU i j))) ->
  (forall i j, (i < n)%nat -> (j < n)%nat -> is_derive (fun x => Im (U x i j)) x0 (Im (dU i j))) ->
  hs_overlap n (U x0) T <> RtoC 0 ->
  is_derive (fun x => hs_cost n (U x) T) x0 (hs_grad n (U x0) dU T).
Proof. exact hs_grad_is_derivative. Qed.

Theorem C19_state_grad_is_derivative : forall n (U : R -> matrix) (dU : matrix) (t : vector) (x0 : R),
  (forall i, (i < n)%nat -> is_derive (fun x => Re (U x i 0%nat)) x0 (Re (dU i 0%nat))) ->
  (forall i, (i < n)%nat -> is_derive (fun x => Im (U x i 0%nat)) x0 (Im (dU i 0%nat))) ->
  is_derive (fun x => state_cost n (U x) t) x0 (state_grad n (U x0) dU t).
Proof. exact state_grad_is_derivative. Qed.

(* non-vacuity: X, Z, iZ, I are unitary in the sense of the hypotheses; both extreme costs occur *)
Example C19_cost_nonvacuous :
  unitary 2 Xg /\ unitary 2 Zg /\ unitary 2 iZg /\ unitary 2 Id2 /\
  hs_cost 2 Xg Id2 = 1%R /\ hs_cost 2 iZg Zg = 0%R.
Proof.
  repeat split; try apply unitary_Xg; try apply unitary_Zg; try apply unitary_iZg; try apply unitary_Id2.
  - exact hs_cost_X_I. - exact hs_cost_iZ_Z.
Qed.
