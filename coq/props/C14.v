(* C14 - a crashed worker or manager unblocks every waiting client with an error.
   Only statements closed by `exact`; the model is rt/Crash.v, the proofs rt/CrashThm.v.
   Level: PARTIAL.  The theorems are about the event system of rt/Crash.v (FIFO links, EOF
   after the data already sent, handlers transcribed from base.py / detached.py /
   attached.py / manager.py / worker.py / compiler.py).  That the OS really delivers EOF,
   that Process.join returns and any wall-clock bound are validated only by the
   real-process fault runs of harness/props/c14.py. *)
From Coq Require Import List Arith Bool PeanoNat Lia.
Import ListNotations.
From BQ Require Import rt.Crash rt.CrashThm rt.CrashEx.

(* From any reachable state (arbitrary ordinary traffic in flight, arbitrary earlier crashes), after the
   crash (SIGKILL, or an exception in the worker's runtime code) of ANY worker or manager - nested
   manager topologies included - and for every continuation [es] (any schedule; it may contain further
   crashes = second crash, further client calls and at most [budget] further spontaneous messages):
   - the number of receive (Deliver/Eof) events in [es] is at most the explicit variant of the state
     right after the crash (the variant strictly decreases with every receive and never increases:
     C14_variant);
   - whenever no receive is enabled any more - the end of every fair continuation - every runtime
     process is down, every client connection is closed by the server and no client is still inside a call;
   - otherwise some receive is enabled (the system is never stuck half way).
   (Before repo commit ddab951 this held only for workers and managers of workers; the run
   C14_nested_regression below was then the machine-checked refutation witness.) *)
Theorem C14_crash_propagates : forall T attached out, wf_topo T = true -> forall s n e0 s1,
  reach T attached out s -> (e0 = ECrash n \/ e0 = EFail n) ->
  step T attached out s e0 = Some s1 ->
  forall es s2, run T attached out s1 es = Some s2 ->
    count_recv es + variant T s2 <= variant T s1 /\
    (quiescent T attached s2 = true -> all_down T s2 = true) /\
    (quiescent T attached s2 = false -> exists up c k s3, step T attached out s2 (ERecv up c k) = Some s3).
Proof. exact crash_propagates. Qed.

Theorem C14_variant : forall T attached out, wf_topo T = true -> forall s e s',
  step T attached out s e = Some s' ->
  variant T s' <= variant T s /\ (is_recv e = true -> variant T s' < variant T s).
Proof. exact step_variant. Qed.

(* the former refutation witness (rt/CrashEx.v: server - manager 1 - manager 2 - worker 3, client 4; manager 1
   is killed while the client waits in result()): now everything goes down.  Replayed on the real handlers
   (corpus/C14/nested_witness.json) and on real processes (scenario nested_top_manager). *)
Example C14_nested_regression : exists s s1 s2,
  run nested_T false S (init nested_T 10) nested_pre = Some s /\
  step nested_T false S s (ECrash 1) = Some s1 /\
  run nested_T false S s1 nested_post = Some s2 /\
  quiescent nested_T false s2 = true /\ all_down nested_T s2 = true /\
  alive s2 2 = false /\ alive s2 3 = false /\ cend s2 2 = false /\
  outcomes s2 4 = [ORaised; OSubmitted 7].
Proof. exact nested_run. Qed.

(* A client call that is blocked when the server has gone down cannot wait for ever: its
   read is enabled; when it returns exactly one outcome is recorded; once everything that
   was in flight and the EOF have arrived the outcome is the exception, the connection is
   dropped (conn = None); and at quiescence no client is blocked. *)
Theorem C14_client_raises : forall T attached out, wf_topo T = true -> forall s,
  reach T attached out s -> alive s 0 = false ->
  forall c, c < N T -> is_client T c = true ->
    (blocked s c <> None -> recv_down T c 1 s <> None) /\
    (forall k s', recv_down T c k s = Some s' -> blocked s' c = None ->
       exists o, outcomes s' c = o :: outcomes s c /\ is_answer o) /\
    (forall s', recv_down T c (S (length (downq s c))) s = Some s' ->
       blocked s' c = None /\ cend s' c = false /\ outcomes s' c = ORaised :: outcomes s c) /\
    (quiescent T attached s = true -> blocked s c = None).
Proof. exact client_raises. Qed.

(* Any RESULT returned to client c by result() carries the complete output [out mb] of a
   root task mb that c itself submitted (uuid u) and whose Return has happened: no crash,
   shutdown or error path fabricates, truncates or re-routes a result. *)
Theorem C14_no_partial_result : forall T attached out s, reach T attached out s ->
  forall c u v, In (OResult u v) (outcomes s c) ->
  exists mb, In (c, u, mb) (owns s) /\ v = out mb /\ In mb (fin s).
Proof. exact no_partial_result. Qed.

(* ---- non-vacuity ------------------------------------------------------------------------------ *)
(* rt/CrashEx.v: ex_T = server 0; manager 1 with workers 2,3; manager 4 with worker 5; clients 6,7.
   Client 6 is blocked in result(), client 7 has submitted; worker 2 is killed. *)
Example C14_crash_nonvacuous :
  wf_topo ex_T = true /\
  exists s s1 s2, run ex_T false S (init ex_T 10) ex_pre = Some s /\ reach ex_T false S s /\
    step ex_T false S s (ECrash 2) = Some s1 /\ run ex_T false S s1 ex_post = Some s2 /\
    quiescent ex_T false s2 = true /\ all_down ex_T s2 = true /\
    blocked s1 6 = Some (RResult 7) /\ outcomes s2 6 = [ORaised; OSubmitted 7] /\
    outcomes s2 7 = [ORaised; OSubmitted 9] /\ count_recv ex_post = 6 /\ variant ex_T s1 = 143.
Proof. exact ex_crash. Qed.

(* a fault-free run delivers the complete result (the hypothesis of C14_no_partial_result is met) *)
Example C14_result_nonvacuous :
  exists s, reach ex_T false S s /\ outcomes s 6 = [OResult 7 1; OSubmitted 7] /\
            owns s = [(6, 7, 0)] /\ fin s = [0].
Proof. exact ex_result. Qed.
