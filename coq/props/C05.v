(* C05 - all views of a Circuit stay mutually consistent after every edit.
   In the model the dependency views are FUNCTIONS of the grid (circuit/CViews.v; the
   harness compares the implementation's incrementally maintained `_front/_rear/_dag/
   _gate_info/_graph_info`, `next/prev/front/rear`, counters and iteration with them after
   every call).  What has to be proved is (a) the grid invariant "no cycle is empty, and in
   every cycle at most one operation touches a given qudit", preserved by every modelled
   editor, and (b) that the derived views agree with each other (CViewsThm.v).
   Statements only; proofs in circuit/CThm.v, CThm2.v, CViewsThm.v, CFoldThm.v. *)
From Coq Require Import List ZArith Sorted.
Import ListNotations.
From BQ Require Import circuit.CModel circuit.CThm circuit.CThm2 circuit.CHistThm circuit.CViews circuit.CViewsThm circuit.CFold circuit.CFoldThm.

(* ---- (a) the invariant ------------------------------------------------------------------ *)
Theorem C05_append_inv : forall c o, Inv c -> Inv (fst (append_raw c o)).
Proof. exact append_raw_inv. Qed.

Theorem C05_insert_inv : forall c ci o, Inv c -> Inv (fst (insert c ci o)).
Proof. exact insert_inv. Qed.

Theorem C05_pop_inv : forall c pt, Inv c -> Inv (fst (pop c pt)).
Proof. exact pop_inv. Qed.

Theorem C05_compress_inv : forall c, Inv (compress c).
Proof. exact compress_inv. Qed.

(* every history of append / insert / pop / compress from the empty circuit, with
   any arguments (valid or not), ends in a circuit satisfying the invariant *)
Theorem C05_history_inv : forall n rs ks, Inv (fold_left do_call ks (mkC n rs [])).
Proof. exact history_inv. Qed.

(* the remaining editors, each for arbitrary (also invalid) arguments *)
Theorem C05_replace_inv : forall c pt o, Inv c -> Inv (fst (replace c pt o)).
Proof. exact replace_inv. Qed.
Theorem C05_batch_replace_inv : forall c pts ops, Inv c -> Inv (fst (batch_replace c pts ops)).
Proof. exact batch_replace_inv. Qed.
Theorem C05_batch_pop_inv : forall c pts, Inv c -> Inv (fst (batch_pop c pts)).
Proof. exact batch_pop_inv. Qed.
Theorem C05_extend_inv : forall c ops, Inv c -> Inv (fst (extend c ops)).
Proof. exact extend_inv. Qed.
Theorem C05_append_circuit_inv : forall c sub loc g, Inv c -> Inv (fst (append_circuit c sub loc g)).
Proof. exact append_circuit_inv. Qed.
Theorem C05_insert_circuit_inv : forall c ci sub loc g, Inv c -> Inv (fst (insert_circuit c ci sub loc g)).
Proof. exact insert_circuit_inv. Qed.
Theorem C05_replace_with_circuit_inv : forall c pt sub g, Inv c -> Inv (fst (replace_with_circuit c pt sub g)).
Proof. exact replace_with_circuit_inv. Qed.
Theorem C05_unfold_inv : forall c pt, Inv c -> Inv (fst (unfold c pt)).
Proof. exact unfold_inv. Qed.
Theorem C05_unfold_all_inv : forall fuel c c', Inv c -> unfold_all_fuel fuel c = Some c' -> Inv c'.
Proof. exact unfold_all_inv. Qed.
Theorem C05_append_qudit_inv : forall c r, Inv c -> Inv (fst (append_qudit c r)).
Proof. exact append_qudit_inv. Qed.
Theorem C05_insert_qudit_inv : forall c qi r, Inv c -> Inv (fst (insert_qudit c qi r)).
Proof. exact insert_qudit_inv. Qed.
Theorem C05_pop_qudit_inv : forall c qi, Inv c -> Inv (fst (pop_qudit c qi)).
Proof. exact pop_qudit_inv. Qed.
(* renumbering needs every operation on qudits of the circuit (check_valid_operation) *)
Theorem C05_renumber_inv : forall c perm, Inv c -> in_range c -> Inv (fst (renumber_qudits c perm)).
Proof. exact renumber_inv. Qed.
Theorem C05_clear_inv : forall c, Inv (clear c).
Proof. exact clear_inv. Qed.
Theorem C05_iadd_inv : forall a b, Inv a -> Inv (fst (c_iadd a b)).
Proof. exact iadd_inv. Qed.
Theorem C05_imul_inv : forall a n, Inv a -> Inv (c_imul a n).
Proof. exact imul_inv. Qed.
Theorem C05_mul_inv : forall a n, Inv (c_mul a n).
Proof. exact mul_inv. Qed.

(* every history over the whole modelled alphabet (22 calls, any arguments) from a circuit
   satisfying the invariant; the only side condition: a renumber_qudits happens in a state
   whose operations all sit on qudits of the circuit *)
Theorem C05_history_inv_full : forall ks c, Inv c -> renumbers_in_range ks c -> Inv (fold_left do_callF ks c).
Proof. exact history_inv_full. Qed.
(* without unfold_all (whose unchecked raw appends can bring in out-of-range inner operations of an
   ill-formed block) no side condition is left: every history of the other 21 calls from the empty
   circuit, with ANY arguments, keeps the invariant and every operation on qudits of the circuit *)
Theorem C05_history_inv_range : forall ks n rs, Forall no_unfold_all ks ->
  Inv (fold_left do_callF ks (mkC n rs [])) /\ in_range (fold_left do_callF ks (mkC n rs [])).
Proof. exact history_inv_range_empty. Qed.
(* unfold_all included, NO side condition but the constructor's `num_qudits > 0` (Circuit(0) raises;
   pop_qudit refuses to remove the last qudit - both checked on the implementation on every run):
   every history over the whole alphabet (22 calls, ANY arguments, ill-formed blocks included) from the
   empty circuit keeps the invariant and every operation on qudits of the circuit.  unfold_all relabels
   an inner operation through the block's location, which is made of qudits of the circuit. *)
Theorem C05_history_inv_unconditional : forall ks n rs, 0 < n ->
  Inv (fold_left do_callF ks (mkC n rs [])) /\ in_range (fold_left do_callF ks (mkC n rs [])).
Proof. exact history_inv_unconditional_empty. Qed.
(* the same from any state: invariant, range and width are kept by every call *)
Theorem C05_history_inv_unconditional_from : forall ks c, Inv c -> 0 < nq c -> in_range c ->
  Inv (fold_left do_callF ks c) /\ in_range (fold_left do_callF ks c) /\ 0 < nq (fold_left do_callF ks c).
Proof. exact history_inv_unconditional. Qed.
Theorem C05_unfold_all_in_range : forall fuel c c', 0 < nq c -> in_range c -> unfold_all_fuel fuel c = Some c' -> in_range c'.
Proof. exact unfold_all_inr. Qed.
(* the statement for EVERY width, as it was left open, *)
Definition C05_history_inv_unconditional_full : Prop :=
  forall ks n rs, Inv (fold_left do_callF ks (mkC n rs [])).
(* is false of the model at width 0 only - a circuit the constructor rejects, so the witness cannot be
   replayed on the implementation (the harness checks that `Circuit(0)` raises ValueError): unfold_all of
   a block on no qudits brings in an inner operation on "qudit 0" of a 0-qudit circuit, insert_qudit moves
   it to qudit 1 of a 1-qudit circuit, a checked append on qudit 0 shares its cycle and
   renumber_qudits [0] maps both to qudit 0 *)
Theorem C05_history_inv_unconditional_full_refuted_width0 : ~ C05_history_inv_unconditional_full.
Proof. intros H. exact (history_width0_refuted (H w0_history 0 [])). Qed.
Example C05_unconditional_nonvacuous :
  let inner := Op false 1 [7] [] [2] [] in           (* an ill-formed block: inner qudit 7 of a 1-qudit block *)
  let blk := Op true 0 [1] [] [2] [[inner]] in
  let ks := [FAppend blk; FUnfoldAll 3; FAppend (Op false 1 [1] [] [2] []); FRenumber [1;0]] in
  cycles (fold_left do_callF ks (mkC 2 [2;2] [])) = [[Op false 1 [1] [] [2] []; Op false 1 [0] [] [2] []]].
Proof. vm_compute. reflexivity. Qed.

(* iteration yields each qudit's operations in timeline order *)
Theorem C05_iteration_compatible : forall cs q,
  Forall amo cs -> filter (touches q) (iter_ops cs) = tlc cs q.
Proof. exact proj_iter. Qed.

(* ---- (b) the derived views agree ------------------------------------------------------------- *)
(* CircuitDagIterator (heap of ready points, prev_binned_counts) yields every operation exactly
   once, in strictly increasing (cycle, location[0]) order, i.e. exactly iter_ops *)
Theorem C05_dag_iter_sorted : forall c,
  Inv c -> wf_locs c -> locs_in_range c ->
  dag_iter c = map (fun p => (fst p, Some (snd p))) (ops_with_cycles c).
Proof. exact dag_iter_sorted. Qed.

Theorem C05_dag_iter_is_iteration : forall c,
  Inv c -> wf_locs c -> locs_in_range c -> map snd (dag_iter c) = map Some (iter_ops (cycles c)).
Proof. exact dag_iter_ops. Qed.

Theorem C05_dag_iter_strictly_increasing : forall c,
  Inv c -> wf_locs c -> locs_in_range c ->
  map yield_pt (dag_iter c) = points c /\ StronglySorted pt_lt (map yield_pt (dag_iter c)).
Proof. exact dag_iter_strictly_increasing. Qed.

Theorem C05_dag_iter_once : forall c,
  Inv c -> wf_locs c -> locs_in_range c ->
  NoDup (map yield_pt (dag_iter c)) /\
  (forall i o, In (i, Some o) (dag_iter c) <-> In o (cycle_at c i)).
Proof. exact dag_iter_once. Qed.

(* composed with the history theorem: after every history of the modelled calls (any arguments;
   unfold_all aside) from the empty circuit the DAG iterator yields exactly the grid iteration -
   provided no operation has an empty location (a gate acts on at least one qudit) *)
Theorem C05_history_dag_iter : forall ks n rs,
  Forall no_unfold_all ks ->
  let c := fold_left do_callF ks (mkC n rs []) in
  wf_locs c -> dag_iter c = map (fun p => (fst p, Some (snd p))) (ops_with_cycles c).
Proof. exact history_dag_iter. Qed.

(* the range hypothesis is needed: `_front` only has the circuit's qudits *)
Theorem C05_dag_iter_needs_range :
  let c := mkC 1 [2] [[Op false 1 [3] [] [2] []]] in
  Inv c /\ wf_locs c /\ dag_iter c = [] /\ num_operations c = 1.
Proof. exact dag_iter_needs_range. Qed.

(* next and prev are inverse *)
Theorem C05_views_next_prev_inverse : forall c p p',
  amo_all c -> wf_locs c -> In p (points c) -> In p' (points c) ->
  In p' (nexts c p) <-> In p (prevs c p').
Proof. exact next_prev_inverse. Qed.

Theorem C05_views_next_prev_on_inverse : forall c i j q o o',
  amo_all c -> get_cell c i q = Some o -> get_cell c j q = Some o' ->
  CViews.next_on c i q = Some (pt_of j o') <-> prev_on c j q = Some (pt_of i o).
Proof. exact next_prev_on_inverse. Qed.

(* front / rear = the points without predecessors / successors *)
Theorem C05_views_front : forall c p,
  amo_all c -> wf_locs c -> locs_in_range c -> In p (front c) <-> In p (points c) /\ prevs c p = [].
Proof. exact front_no_prev. Qed.
Theorem C05_views_rear : forall c p,
  amo_all c -> wf_locs c -> locs_in_range c -> In p (rear c) <-> In p (points c) /\ nexts c p = [].
Proof. exact rear_no_next. Qed.

(* first_on / last_on = the ends of the qudit's timeline *)
Theorem C05_views_first_on : forall c q,
  amo_all c ->
  match first_on c q with
  | Some p => exists o, hd_error (tl c q) = Some o /\ p = pt_of (fst p) o /\ get_cell c (fst p) q = Some o
                        /\ tlc (firstn (fst p) (cycles c)) q = []
  | None => tl c q = []
  end.
Proof. exact first_on_spec. Qed.
Theorem C05_views_last_on : forall c q,
  amo_all c ->
  match last_on c q with
  | Some p => exists o, last_error (tl c q) = Some o /\ p = pt_of (fst p) o /\ get_cell c (fst p) q = Some o
                        /\ tlc (skipn (S (fst p)) (cycles c)) q = []
  | None => tl c q = []
  end.
Proof. exact last_on_spec. Qed.

(* counters *)
Theorem C05_views_num_operations : forall c,
  num_operations c = length (iter_ops (cycles c)) /\ num_operations c = length (points c).
Proof. intros c. split; [exact (num_operations_iter c)|exact (num_operations_points c)]. Qed.

Theorem C05_views_gate_counts : forall c,
  count_sum (gate_counts c) = num_operations c /\
  (forall k, In k (map fst (gate_counts c)) -> exists cy o, In cy (cycles c) /\ In o cy /\ k = gate_key o) /\
  Forall (fun kn => 1 <= snd kn) (gate_counts c).
Proof. exact gate_counts_sum. Qed.

(* _graph_info keys are ordered pairs of qudits of one operation, each listed once *)
Theorem C05_views_graph_info : forall c,
  (forall a b, In (a, b) (map fst (graph_info c)) ->
     a < b /\ exists cy o, In cy (cycles c) /\ In o cy /\ In a (o_loc o) /\ In b (o_loc o)) /\
  NoDup (map fst (graph_info c)) /\ Forall (fun kn => 1 <= snd kn) (graph_info c).
Proof. exact graph_info_ordered. Qed.

Theorem C05_views_active_qudits : forall c q, In q (active_qudits c) <-> q < nq c /\ tl c q <> [].
Proof. exact active_qudits_spec. Qed.

Theorem C05_views_depth : forall c, amo_all c -> depth c <= ncyc c.
Proof. exact depth_le_cycles. Qed.

(* ---- known finding D6: fold can leave an idle cycle ------------------------------------------- *)
(* the model of fold (circuit/CFold.v, compared with the implementation on every fold call
   of the histories) returns, on the witness of corpus/C05/D6.json, a grid with an empty cycle *)
Theorem C05_fold_idle_cycle_refuted :
  exists c r c' n, Inv c /\ fold c r = (c', OkN n) /\ ~ Inv c'.
Proof. exact fold_idle_cycle_refuted. Qed.

(* the proposed repair (fixes/D6.patch) is modelled by the switch `fx` of straighten_rx / fold_x:
   off it is the current algorithm; on, both D6 witnesses end without an idle cycle, fold returns
   the same point and straighten keeps every timeline (the repaired implementation is compared with
   `fold_x true` / `straighten_x true` by the harness when it is the tree under test) *)
Theorem C05_fold_x_false_is_fold : forall c r, fold_x false c r = fold c r.
Proof. exact fold_x_false. Qed.

Theorem C05_fold_repair_on_witnesses :
  Inv (fst (fold_x true d6_circuit d6_region)) /\ snd (fold_x true d6_circuit d6_region) = OkN 2
  /\ ~ Inv (fst (straighten_rx false d6b_circuit d6b_region))
  /\ Inv (fst (straighten_rx true d6b_circuit d6b_region))
  /\ Inv (fst (fold_x true d6b_circuit d6b_region))
  /\ map (tl (fst (straighten_rx true d6b_circuit d6b_region))) (seq 0 6) = map (tl d6b_circuit) (seq 0 6).
Proof. exact fold_x_repairs_d6. Qed.
(* to do: Inv of the repaired result for every circuit satisfying Inv *)
Definition C05_fold_repair_inv_full : Prop :=
  forall c r c' n, Inv c -> fold_x true c r = (c', OkN n) -> Inv c'.

Example C05_nonvacuous :
  let cx := Op false 4 [0;1] [] [2;2] [] in
  let x0 := Op false 1 [0] [] [2] [] in
  cycles (fold_left do_call [CAppend cx; CInsert 0 x0; CPop None] (mkC 2 [2;2] [])) = [[x0]]
  /\ cycles (fold_left do_call [CAppend cx; CInsert 0 x0] (mkC 2 [2;2] [])) = [[x0]; [cx]].
Proof. vm_compute. split; reflexivity. Qed.

(* a history over the full alphabet, and the views of its result *)
Example C05_nonvacuous_full :
  let cx := Op false 4 [0;1] [] [2;2] [] in
  let cx12 := Op false 4 [1;2] [] [2;2] [] in
  let x0 := Op false 1 [0] [] [2] [] in
  let ks := [FAppend cx; FAppendQudit 2; FInsert 0 x0; FReplace (1, 1)%Z cx12; FRenumber [2;0;1]; FIadd (mkC 3 [2;2;2] [[x0]])] in
  let c := fold_left do_callF ks (mkC 2 [2;2] []) in
  renumbers_in_range ks (mkC 2 [2;2] []) /\
  cycles c = [[Op false 1 [2] [] [2] []]; [Op false 4 [0;1] [] [2;2] []]; [x0]] /\
  front c = [(0, 2); (1, 0)] /\ rear c = [(0, 2); (2, 0)] /\
  map yield_pt (dag_iter c) = [(0, 2); (1, 0); (2, 0)] /\ num_operations c = 3 /\ depth c = 2 /\
  graph_info c = [((0, 1), 1)].
Proof. intros cx cx12 x0 ks c.
  assert (E : fold_left do_callF [FAppend cx; FAppendQudit 2; FInsert 0 x0; FReplace (1, 1)%Z cx12] (mkC 2 [2;2] [])
              = mkC 3 [2;2;2] [[x0]; [cx12]]) by (vm_compute; reflexivity).
  split.
  - cbn [ks renumbers_in_range]. repeat split; auto.
    change (in_range (fold_left do_callF [FAppend cx; FAppendQudit 2; FInsert 0 x0; FReplace (1, 1)%Z cx12] (mkC 2 [2;2] []))).
    rewrite E. intros cy o a Hcy Ho Ha. cbn [cycles nq] in *.
    destruct Hcy as [<-|[<-|[]]]; destruct Ho as [<-|[]]; cbn in Ha; repeat (destruct Ha as [<-|Ha]; [auto with arith|]); destruct Ha.
  - vm_compute. repeat split. Qed.
