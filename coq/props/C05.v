(* C05 - all views of a Circuit stay mutually consistent after every edit.
   In the model the dependency views are functions of the grid (that is the
   property); what has to be proved of the grid itself is the invariant
   "no cycle is empty, and in every cycle at most one operation touches a given
   qudit" (each operation occupies exactly its location in exactly one cycle). *)
From Coq Require Import List ZArith.
Import ListNotations.
From BQ Require Import circuit.CModel circuit.CThm.

Theorem C05_append_inv : forall c o, Inv c -> Inv (fst (append_raw c o)).
Proof. exact append_raw_inv. Qed.

Theorem C05_insert_inv : forall c ci o, Inv c -> Inv (fst (insert c ci o)).
Proof. exact insert_inv. Qed.

Theorem C05_pop_inv : forall c pt, Inv c -> Inv (fst (pop c pt)).
Proof. exact pop_inv. Qed.

Theorem C05_compress_inv : forall c, Inv (compress c).
Proof. exact compress_inv. Qed.

(* every history of append / insert / pop / compress from the empty circuit, with
   any arguments (valid or not), ends in a circuit satisfying the invariant *)
Theorem C05_history_inv : forall n rs ks, Inv (fold_left do_call ks (mkC n rs [])).
Proof. exact history_inv. Qed.

(* iteration yields each qudit's operations in timeline order *)
Theorem C05_iteration_compatible : forall cs q,
  Forall amo cs -> filter (touches q) (iter_ops cs) = tlc cs q.
Proof. exact proj_iter. Qed.

(* Known finding D6 (fold/straighten can leave an idle cycle) concerns a call that
   has no Coq model yet; it is reproduced on the implementation by the harness. *)

Example C05_nonvacuous :
  let cx := Op false 4 [0;1] [] [2;2] [] in
  let x0 := Op false 1 [0] [] [2] [] in
  cycles (fold_left do_call [CAppend cx; CInsert 0 x0; CPop None] (mkC 2 [2;2] [])) = [[x0]]
  /\ cycles (fold_left do_call [CAppend cx; CInsert 0 x0] (mkC 2 [2;2] [])) = [[x0]; [cx]].
Proof. vm_compute. split; reflexivity. Qed.
