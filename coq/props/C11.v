(* C11 - block-wise and control-flow passes apply bodies exactly as specified.
   Statements only; proofs are in ctl/ForEachThm.v, ctl/ControlThm.v, ctl/ErrBound.v.
   Models: ctl/ForEach.v (foreach.py, Circuit.batch_replace/replace), ctl/Control.v (ifthenelse,
   whileloop, dowhileloop, dothendecide, paralleldo, Workflow.run), records and copy/become
   GENERATED from the source (gen/PassDataFields.v, gen/CircuitFields.v). *)
From Coq Require Import List Arith Bool QArith Reals Lia Permutation.
Import ListNotations.
Local Open Scope nat_scope.
From BQ Require Import gen.PassDataFields gen.CircuitFields.
From BQ Require Import ctl.ForEach ctl.ForEachThm ctl.Control ctl.ControlThm ctl.ErrBound.

(* ---------------------------------------------------------------------------------------
   ForEachBlockPass.run.  For every well-formed circuit (operations in iteration order, one
   operation per grid cell), every collection filter, replace filter and body behaviour that
   does not raise and keeps the block width: the run succeeds; the resulting operation list is
   the input with exactly the accepted blocks replaced, each at its own position (spec_ops is a
   single left-to-right pass); the number of cycles is unchanged; the body was called on the
   selected blocks, once each, in order (fo_calls); the reported error is update_error_mul of
   the sum of the ACCEPTED blocks' errors only. *)
Theorem C11_foreach_exact :
  forall (cf : op -> bool) (rf : subc -> op -> bool) (body : binput -> option bresult)
         (edges : list (nat * nat)) (radixes : list nat) (ceb : bool) (error_mul : Q -> Q -> Q)
         (c : circ) (e0 : Q) (rs : list bresult),
    wf_circ c ->
    run_bodies body (inputs edges radixes ceb 0 (collect cf (ops c))) = Some rs ->
    p_widthbad (post rf (collect cf (ops c)) rs) = false ->
    exists out : fe_out,
      ForEach.run cf rf body edges radixes ceb error_mul c e0 = Ok out
      /\ ops (fo_circ out) = spec_ops cf rf body edges radixes ceb 0 (ops c)
      /\ ncyc (fo_circ out) = ncyc c
      /\ (collect cf (ops c) <> [] -> fo_calls out = inputs edges radixes ceb 0 (collect cf (ops c)))
      /\ fo_error out = match collect cf (ops c) with
                        | [] => e0
                        | _ :: _ => error_mul e0 (error_sum (spec_errs cf rf body edges radixes ceb 0 (ops c)))
                        end.
Proof. exact foreach_exact. Qed.

(* the calls: block i of the selection gets index i, its own operations, its own point *)
Theorem C11_foreach_body_once_per_block :
  forall edges radixes ceb i (bs : list (nat * op)),
    map bi_index (inputs edges radixes ceb i bs) = seq i (length bs)
    /\ map bi_sub (inputs edges radixes ceb i bs) = map (fun co => subcircuit (snd co)) bs
    /\ map bi_point (inputs edges radixes ceb i bs) = map (fun co => (fst co, hd 0 (oloc (snd co)))) bs.
Proof. intros. split; [apply inputs_index|split; [apply inputs_subs|apply inputs_points]]. Qed.

(* Circuit.batch_replace with points captured before the write-back: for ANY set of decisions
   (None = keep, Some s = write CircuitGate(s) on the same location) and ANY order in which the
   collected points are handed over, it is the positional substitution: every lookup finds its
   own block whatever the processing order (the code sorts by descending cycle), and ... *)
Theorem C11_batch_replace_positional :
  forall (c : circ) (dec : list (option subc)) (pts : list ((nat * nat) * op)),
    wf_circ c -> Permutation pts (pos_of (ops c) dec) ->
    batch_replace c (map fst pts) (map snd pts) = Ok (mkCirc (ncyc c) (apply_dec (ops c) dec)).
Proof. exact batch_replace_positional_perm. Qed.

(* the replacement loop itself, for any list of positions that each hit one entry with the
   entry's own location, no two hitting the same entry: the result does not depend on the order *)
Theorem C11_batch_loop_any_order :
  forall n (pos : list ((nat * nat) * op)) (l : list (nat * op)),
    wf_ops l -> Forall (fun co => fst co < n) l -> Forall (hit l) pos -> uniq l pos ->
    batch_loop (mkCirc n l) [] pos = Ok (mkCirc n (apply_pos l pos)).
Proof. exact batch_any_order. Qed.

(* ... the positional substitution touches nothing else: same length, same cycles and
   locations everywhere, element k changed only where decision k says so *)
Theorem C11_write_back_leaves_rest_untouched :
  forall (l : list (nat * op)) (dec : list (option subc)),
    length (apply_dec l dec) = length l
    /\ map (fun co => (fst co, oloc (snd co))) (apply_dec l dec) = map (fun co => (fst co, oloc (snd co))) l
    /\ forall k, nth_error (apply_dec l dec) k =
         match nth_error l k with
         | None => None
         | Some co => match nth_error dec k with
                      | Some (Some s) => Some (fst co, mkOp (CGate s) (oloc (snd co)))
                      | _ => Some co
                      end
         end.
Proof. intros. split; [apply apply_dec_length|split; [apply apply_dec_skeleton|apply apply_dec_nth]]. Qed.

(* replace() stays on its in-place branch: no cycle appears or vanishes during the loop, so no
   pending point ever has to be shifted *)
Theorem C11_batch_replace_no_cycle_shift :
  forall pos c sh c', batch_loop c sh pos = Ok c' -> ncyc c' = ncyc c.
Proof. exact batch_loop_ncyc. Qed.

Theorem C11_foreach_spec_is_positional :
  forall cf rf body edges radixes ceb l i,
    spec_ops cf rf body edges radixes ceb i l
    = apply_dec l (decisions cf rf body edges radixes ceb i l).
Proof. exact spec_is_apply. Qed.

(* ---------------------------------------------------------------------------------------
   Error bound.  d: any function on a monoid U with d(a,a)=0, the triangle inequality,
   invariance under a common left/right factor and under embedding a block at a location
   (all true of BQSKit's get_distance_from on unitaries; here hypotheses, validated numerically
   by the harness).  If the old circuit is within e0 of the target and each replaced block is
   within its own e_i of the block it replaces, the new circuit is within e0 + sum e_i, which is
   the reported value upd e0 (sum e_i) plus the second-order term e0 * sum e_i. *)
Theorem C11_error_bound_partial :
  forall (U : Type) (mul : U -> U -> U) (one : U) (d : U -> U -> R),
    (forall a, d a a = 0%R) ->
    (forall a b c, (d a c <= d a b + d b c)%R) ->
    (forall c a b, d (mul c a) (mul c b) = d a b) ->
    (forall c a b, d (mul a c) (mul b c) = d a b) ->
    forall (L : Type) (emb : L -> U -> U),
    (forall k a b, d (emb k a) (emb k b) = d a b) ->
    forall (target : U) (l l' : list (L * U)) (es : list R) (e0 : R),
      rewritten U d L l l' es ->
      (d target (prod U mul one (map (den U L emb) l)) <= e0)%R ->
      (d (prod U mul one (map (den U L emb) l)) (prod U mul one (map (den U L emb) l')) <= rsum es)%R
      /\ (d target (prod U mul one (map (den U L emb) l')) <= upd e0 (rsum es) + e0 * rsum es)%R.
Proof. intros U mul one d H1 H2 H3 H4 L emb H5 target l l' es e0 Hr H0. split.
  - exact (d_rewritten U mul one d H1 H2 H3 H4 L emb H5 l l' es Hr).
  - exact (reported_bound U mul one d H1 H2 H3 H4 L emb H5 target l l' es e0 Hr H0). Qed.

(* What is missing for the full statement: the hypotheses above for the distance BQSKit uses,
   hs_dist n A B = sqrt(1 - (|tr(A^dagger B)|/n)^2) on n x n unitaries (ctl/ErrBound.v part 3).
   Not proved (needs the matrix library of DESIGN 3.3); validated numerically on every run. *)
Definition C11_error_bound_full : Prop :=
  forall n : nat, 0 < n ->
    (forall A, unitary n A -> hs_dist n A A = 0%R)
    /\ (forall A B C, unitary n A -> unitary n B -> unitary n C ->
           (hs_dist n A C <= hs_dist n A B + hs_dist n B C)%R)
    /\ (forall W A B, unitary n W -> unitary n A -> unitary n B ->
           hs_dist n (mmul n W A) (mmul n W B) = hs_dist n A B
           /\ hs_dist n (mmul n A W) (mmul n B W) = hs_dist n A B)
    /\ (forall m A B, 0 < m -> unitary n A -> unitary n B ->
           hs_dist (n * m) (kron_id m A) (kron_id m B) = hs_dist n A B).

(* update_error_mul never reports less than either of its arguments (both in [0,1]) and never
   more than their sum; the generated rational function is `upd` *)
Theorem C11_error_mul_monotone :
  (forall e s : R, (0 <= e <= 1)%R -> (0 <= s <= 1)%R -> (Rmax e s <= upd e s)%R)
  /\ (forall e s : R, (upd e s + e * s = e + s)%R)
  /\ (forall e s : Q, Q2R (pd_update_error_mul e s) = upd (Q2R e) (Q2R s))
  /\ (forall e s : Q, (0 <= s)%Q -> (e <= 1)%Q -> (e <= pd_update_error_mul e s)%Q)
  /\ (forall e s : Q, (0 <= e)%Q -> (s <= 1)%Q -> (s <= pd_update_error_mul e s)%Q).
Proof. split; [exact upd_ge_max|split; [exact upd_expand|split; [exact Q2R_error_mul|
  split; [exact error_mul_ge_l|exact error_mul_ge_r]]]]. Qed.

(* ---------------------------------------------------------------------------------------
   Control passes.  For every nesting, every state, every body/condition/ordering behaviour and
   every copy/become: if the run finishes (no body raised, fuel not exhausted) then its
   execution trace - which body started when, which predicate answered what - is exactly the
   one computed from the predicate streams alone. *)
Theorem C11_control_trace :
  forall (V : Type) ccopy cbecome dcopy dbecome leaf obs cond lt
         (fuel : nat) (p : pass) (s : st V) (ss : streams) (s' : st V) (ss' : streams) (tr : list event),
    run V ccopy cbecome dcopy dbecome leaf obs cond lt fuel p s ss = Done s' ss' tr ->
    xrun fuel p ss = XDone ss' (map erase tr).
Proof. exact run_trace_dictated. Qed.

(* what the streams dictate for the loops: k times True then False = exactly k body runs for
   While (predicate first), k+1 for DoWhile (body first) *)
Theorem C11_while_count :
  forall k fuel q id ss rest,
    nth_error ss q = Some (repeat true k ++ false :: rest) -> k + 2 <= fuel ->
    xrun fuel (While q (Leaf id)) ss = XDone (set_nth q rest ss) (iter_trace q id k).
Proof. exact while_leaf_count. Qed.

Theorem C11_dowhile_count :
  forall k fuel q id ss rest,
    nth_error ss q = Some (repeat true k ++ false :: rest) -> k + 3 <= fuel ->
    xrun fuel (DoWhile q (Leaf id)) ss = XDone (set_nth q rest ss) (ELeaf id 0 :: iter_trace q id k).
Proof. exact dowhile_leaf_count. Qed.

Theorem C11_while_false_skips_body :
  forall (V : Type) ccopy cbecome dcopy dbecome leaf obs cond lt f q b (s : st V) ss ss1,
    read q ss = (false, ss1) ->
    run V ccopy cbecome dcopy dbecome leaf obs cond lt (S f) (While q b) s ss = Done s ss1 [EPred q false].
Proof. exact while_false. Qed.

(* DoThenDecide: the body runs once on the incoming state, the condition sees (saved copy, new
   circuit); accepted = the body's result, rejected = become(saved copies) *)
Theorem C11_dothendecide_spec :
  forall (V : Type) ccopy cbecome dcopy dbecome leaf obs cond lt
         (f c : nat) (b : pass) (s : st V) (ss : streams) (s' : st V) (ss' : streams) (tr : list event),
    run V ccopy cbecome dcopy dbecome leaf obs cond lt (S f) (DoThenDecide c b) s ss = Done s' ss' tr ->
    exists (sb : st V) (tb : list event),
      run V ccopy cbecome dcopy dbecome leaf obs cond lt f b s ss = Done sb ss' tb
      /\ tr = tb ++ [ECond c (cond c (ccopy (fst s)) (fst sb))]
      /\ (cond c (ccopy (fst s)) (fst sb) = true -> s' = sb)
      /\ (cond c (ccopy (fst s)) (fst sb) = false ->
            s' = (cbecome (fst sb) (ccopy (fst s)), dbecome (snd sb) (dcopy (snd s)))).
Proof. exact dtd_spec. Qed.

(* ParallelDo: every branch ran once from the same state; circuit AND data of the result come
   from one and the same branch (the one the less_than fold selects) *)
Theorem C11_paralleldo_spec :
  forall (V : Type) ccopy cbecome dcopy dbecome leaf obs cond lt
         (f : nat) (bs : list pass) (l : nat) (pick : option (list nat))
         (s : st V) (ss : streams) (s' : st V) (ss' : streams) (tr : list event),
    run V ccopy cbecome dcopy dbecome leaf obs cond lt (S f) (ParallelDo bs l pick) s ss = Done s' ss' tr ->
    exists (rs : list (st V)) (best : st V),
      Forall2 (fun b x => exists ssb trb,
                 run V ccopy cbecome dcopy dbecome leaf obs cond lt f b s ss = Done x ssb trb) bs rs
      /\ In best rs
      /\ (pick = None -> best = select V lt l (hd best rs) (tl rs))
      /\ ss' = ss
      /\ s' = (cbecome (fst s) (fst best), dbecome (snd s) (snd best)).
Proof. exact par_spec. Qed.

(* Rejected / unselected leaves everything as it was - for ANY record whose copy and become
   are total (the fixed PassData): a rejected DoThenDecide returns the incoming (circuit, data)
   in every field; ParallelDo returns exactly one branch's own result. *)
Theorem C11_rejected_restores :
  forall (V : Type) ccopy cbecome dcopy dbecome,
    (forall c, ccopy c = c) -> (forall d, dcopy d = d) ->
    (forall s o, cbecome s o = o) -> (forall s o, dbecome s o = o) ->
    restores_stmt V ccopy cbecome dcopy dbecome /\ adopts_stmt V ccopy cbecome dcopy dbecome.
Proof. intros V cc cb dc db H1 H2 H3 H4. split.
  - exact (rejected_restores V cc cb dc db H1 H2 H3 H4).
  - exact (unselected_adopts V cc cb dc db H3 H4). Qed.

(* For the copy/become generated from the CURRENT source: proved when PassData.become copies
   every field, refuted (with a concrete run over bool-valued fields) when it does not - today
   the latter, because of _initial_mapping/_final_mapping (finding D3). *)
Theorem C11_rejected_restores_generated_verdict :
  if pd_become_is_total
  then (forall V, gen_restores V) /\ (forall V, gen_adopts V)
  else ~ gen_restores bool /\ ~ gen_adopts bool.
Proof. exact (restores_generated_verdict cf_become_total). Qed.

(* ---- non-vacuity ----------------------------------------------------------------------- *)
(* a 3-cycle circuit: block A on (0,1) and a lone H on 2 in cycle 0, block B on (1,2) in
   cycle 1, block C on (0,1) in cycle 2.  Body halves A, leaves B, grows C; filter less-than. *)
Definition ex_A : op := mkOp (CGate [mkSop 5 [0;1]; mkSop 6 [0]; mkSop 5 [0;1]]) [0;1].
Definition ex_B : op := mkOp (CGate [mkSop 5 [0;1]]) [1;2].
Definition ex_C : op := mkOp (CGate [mkSop 6 [1]]) [0;1].
Definition ex_H : op := mkOp (Prim 7) [2].
Definition ex_circ : circ := mkCirc 3 [(0, ex_A); (0, ex_H); (1, ex_B); (2, ex_C)].
Definition ex_cf (o : op) : bool := match ogate o with CGate _ => true | Prim _ => false end.
Definition ex_body (b : binput) : option bresult :=
  match bi_index b with
  | 0 => Some (mkBR [mkSop 5 [0;1]] 2 (1 # 8))
  | 1 => Some (mkBR (bi_sub b) 2 (1 # 4))
  | _ => Some (mkBR (bi_sub b ++ bi_sub b) 2 (1 # 2))
  end.

Example C11_foreach_nonvacuous :
  wf_circ ex_circ
  /\ exists out,
       ForEach.run ex_cf f_less_than ex_body [] [2;2;2] false pd_update_error_mul ex_circ (1 # 16) = Ok out
       /\ ops (fo_circ out) = [(0, mkOp (CGate [mkSop 5 [0;1]]) [0;1]); (0, ex_H); (1, ex_B); (2, ex_C)]
       /\ fo_flags out = [true; false; false]
       /\ Qeq (fo_error out) (23 # 128).
Proof. split.
  - split.
    + unfold wf_ops. simpl.
      repeat (constructor; simpl; try discriminate);
        try (intros; repeat match goal with H : _ \/ _ |- _ => destruct H end; subst; simpl in *;
             intuition (try discriminate; try lia)).
    + repeat constructor.
  - eexists. split; [vm_compute; reflexivity|]. split; [reflexivity|split; [reflexivity|reflexivity]]. Qed.

(* the metric hypotheses are satisfiable by a non-trivial d: U = R under +, d = |a - b| *)
Example C11_error_bound_nonvacuous :
  let d := fun a b : R => Rabs (a - b)%R in
  (forall a, d a a = 0%R) /\ (forall a b c, (d a c <= d a b + d b c)%R)
  /\ (forall c a b, d (c + a)%R (c + b)%R = d a b) /\ (forall c a b, d (a + c)%R (b + c)%R = d a b)
  /\ d 0%R 1%R = 1%R.
Proof. cbv zeta. repeat split; intros.
  - replace (a - a)%R with 0%R by ring. apply Rabs_R0.
  - replace (a - c)%R with ((a - b) + (b - c))%R by ring. apply Rabs_triang.
  - f_equal. ring.
  - f_equal. ring.
  - rewrite Rabs_minus_sym. replace (1 - 0)%R with 1%R by ring. apply Rabs_R1. Qed.

(* a rejected DoThenDecide around a body that changes circuit and data, with the total
   (fixed) become: everything is restored; with the generated one: see the verdict above *)
Example C11_control_nonvacuous :
  let leaf := fun (_ : nat) (s : st bool) => Some (cf_const true, pd_const true) in
  run bool (fun c => c) (fun _ o => o) (fun d => d) (fun _ o => o) leaf (fun _ => 0) (fun _ _ _ => false)
      (fun _ _ _ => false) 3 (DoThenDecide 0 (Seq [Leaf 0; Leaf 1])) (cf_const false, pd_const false) []
  = Done (cf_const false, pd_const false) [] [ELeaf 0 0; ELeaf 1 0; ECond 0 false]
  /\ xrun 5 (While 0 (Leaf 9)) [[true; true; false; true]]
     = XDone [[true]] [EPred 0 true; ELeaf 9 0; EPred 0 true; ELeaf 9 0; EPred 0 false].
Proof. split; reflexivity. Qed.
