(* C18 - every library gate obeys the gate contract for all parameters.
   Statements only, closed by `exact`; proofs in lib/ExprThm.v, gate/GateThm.v,
   gate/MatrixThm.v, gate/ComposedThm.v.
   Reading guide:  rho : nat -> R is the parameter vector (rho k = params[k]);
   meval rho M is the complex matrix denoted by the transcription M (gate/GateLib.v);
   Cunitary n U is  U U^dagger = I /\ U^dagger U = I  on the n x n block;
   is_Cderive f x l : the real and imaginary parts of f : R -> C have derivatives
   Re l, Im l at x (Coquelicot is_derive);  grad_ok g : every entry of the model of
   g.get_grad(params)[k] is the derivative of the same entry of get_unitary w.r.t. params[k]. *)
From Coq Require Import Reals QArith ZArith List Arith Permutation.
From Coquelicot Require Import Coquelicot.
From BQ Require Import lib.Expr lib.ExprThm gate.Matrix gate.MatrixThm gate.Composed gate.GateLib gate.GateThm gate.ComposedThm.
From BQ Require Import gate.EqHash gate.EqHashThm gate.FrozenThm.
From BQ Require Import gate.PermDiag gate.PermDiagThm.
Import ListNotations.
Local Open Scope nat_scope.

(* ===== generic machinery ===================================================== *)
(* The symbolic derivative is the derivative, once and for every expression of the
   entry language, every parameter vector and every parameter index. *)
Theorem C18_dexpr_correct : forall (e : cexpr) (rho : env) (k : nat),
  is_Cderive (fun x => ceval (upd rho k x) e) (rho k) (ceval rho (cderiv k e)).
Proof. exact cderiv_correct_at. Qed.
Theorem C18_dexpr_correct_real : forall (e : rexpr) (rho : env) (k : nat),
  is_derive (fun x => reval (upd rho k x) e) (rho k) (reval rho (rderiv k e)).
Proof. exact rderiv_correct_at. Qed.

(* The normaliser that discharges the per-gate obligations is sound. *)
Theorem C18_decision_sound : forall a b : cexpr,
  ceqb a b = true -> forall rho, ceval rho a = ceval rho b.
Proof. exact ceqb_sound. Qed.
Theorem C18_contract_check_sound : forall g, gate_ok g = true -> gate_contract g.
Proof. exact gate_ok_sound. Qed.

(* ===== the library =========================================================== *)
(* Every transcribed class (49 fixed classes + the constructor grid of the radix/size
   parameterised ones, GateLib.grid_gates) satisfies for ALL real parameters:
   U U^dagger = U^dagger U = I; the expression backend equals the numpy override;
   get_grad (hand-written, or the symbolic derivative of the expression backend) is
   the parameter derivative of get_unitary; U(get_inverse_params p) U(p) = I. *)
Theorem C18_library_contract : List.Forall gate_contract (fixed_gates ++ grid_gates).
Proof. exact library_contract. Qed.

Theorem C18_unitary_U3 : forall rho, Cunitary 2 (meval rho m_U3).
Proof. exact U3_unitary. Qed.
(* the hand-written U3Gate.get_grad (g_U3) is the derivative of the hand-written get_unitary *)
Theorem C18_grad_U3 : forall rho k i j, k < 3 -> i < 2 -> j < 2 ->
  is_Cderive (fun x => meval (upd rho k x) m_U3 i j) (rho k) (meval rho (g_U3 k) i j).
Proof. exact U3_grad. Qed.
(* get_inverse_params = [-theta, -lambda, -phi] with get_inverse = U3Gate() *)
Theorem C18_inverse_U3 : forall rho, meq 2
  (Cmmul 2 (meval (fun k => reval rho (inv_subst [RNeg (RVar 0); RNeg (RVar 2); RNeg (RVar 1)] k)) m_U3)
           (meval rho m_U3)) Cid.
Proof. exact U3_inverse. Qed.

Theorem C18_unitary_RX : forall rho, Cunitary 2 (meval rho m_RX).
Proof. exact RX_unitary. Qed.
Theorem C18_grad_RX : grad_ok G_RX.
Proof. exact RX_grad. Qed.
Theorem C18_unitary_RY : forall rho, Cunitary 2 (meval rho m_RY).
Proof. exact RY_unitary. Qed.
Theorem C18_grad_RY : grad_ok G_RY.
Proof. exact RY_grad. Qed.
Theorem C18_unitary_RZ : forall rho, Cunitary 2 (meval rho m_RZ).
Proof. exact RZ_unitary. Qed.
Theorem C18_grad_RZ : grad_ok G_RZ.
Proof. exact RZ_grad. Qed.
Theorem C18_unitary_U1 : forall rho, Cunitary 2 (meval rho m_U1).
Proof. exact U1_unitary. Qed.
Theorem C18_grad_U1 : grad_ok G_U1.
Proof. exact U1_grad. Qed.
Theorem C18_unitary_U2 : forall rho, Cunitary 2 (meval rho m_U2).
Proof. exact U2_unitary. Qed.
Theorem C18_grad_U2 : grad_ok G_U2.
Proof. exact U2_grad. Qed.
Theorem C18_unitary_U1q : forall rho, Cunitary 2 (meval rho m_U1q_np).
Proof. exact U1q_unitary. Qed.
Theorem C18_grad_U1q : grad_ok G_U1q.
Proof. exact U1q_grad. Qed.
Theorem C18_unitary_RXX : forall rho, Cunitary 4 (meval rho m_RXX).
Proof. exact RXX_unitary. Qed.
Theorem C18_grad_RXX : grad_ok G_RXX.
Proof. exact RXX_grad. Qed.
Theorem C18_unitary_RYY : forall rho, Cunitary 4 (meval rho m_RYY).
Proof. exact RYY_unitary. Qed.
Theorem C18_grad_RYY : grad_ok G_RYY.
Proof. exact RYY_grad. Qed.
Theorem C18_unitary_RZZ : forall rho, Cunitary 4 (meval rho m_RZZ).
Proof. exact RZZ_unitary. Qed.
Theorem C18_grad_RZZ : grad_ok G_RZZ.
Proof. exact RZZ_grad. Qed.
Theorem C18_unitary_CRX : forall rho, Cunitary 4 (meval rho m_CRX_np).
Proof. exact CRX_unitary. Qed.
Theorem C18_grad_CRX : grad_ok G_CRX.
Proof. exact CRX_grad. Qed.
Theorem C18_unitary_CRY : forall rho, Cunitary 4 (meval rho m_CRY_np).
Proof. exact CRY_unitary. Qed.
Theorem C18_grad_CRY : grad_ok G_CRY.
Proof. exact CRY_grad. Qed.
Theorem C18_unitary_CRZ : forall rho, Cunitary 4 (meval rho m_CRZ_np).
Proof. exact CRZ_unitary. Qed.
Theorem C18_grad_CRZ : grad_ok G_CRZ.
Proof. exact CRZ_grad. Qed.
Theorem C18_unitary_CP : forall rho, Cunitary 4 (meval rho m_CP).
Proof. exact CP_unitary. Qed.
Theorem C18_grad_CP : grad_ok G_CP.
Proof. exact CP_grad. Qed.
Theorem C18_unitary_CCP : forall rho, Cunitary 8 (meval rho m_CCP).
Proof. exact CCP_unitary. Qed.
Theorem C18_grad_CCP : grad_ok G_CCP.
Proof. exact CCP_grad. Qed.
Theorem C18_unitary_CU : forall rho, Cunitary 4 (meval rho m_CU_np).
Proof. exact CU_unitary. Qed.
Theorem C18_grad_CU : grad_ok G_CU.
Proof. exact CU_grad. Qed.
Theorem C18_unitary_FSIM : forall rho, Cunitary 4 (meval rho m_FSIM_np).
Proof. exact FSIM_unitary. Qed.
Theorem C18_grad_FSIM : grad_ok G_FSIM.
Proof. exact FSIM_grad. Qed.
Theorem C18_unitary_PhasedXZ : forall rho, Cunitary 2 (meval rho m_PXZ_np).
Proof. exact PhasedXZ_unitary. Qed.
Theorem C18_grad_PhasedXZ : grad_ok G_PXZ.
Proof. exact PhasedXZ_grad. Qed.
Theorem C18_unitary_U8 : forall rho, Cunitary 3 (meval rho m_U8).
Proof. exact U8_unitary. Qed.
Theorem C18_grad_U8 : grad_ok G_U8.
Proof. exact U8_grad. Qed.
Theorem C18_unitary_X : forall rho, Cunitary 2 (meval rho (m_X)).
Proof. exact X_unitary. Qed.
Theorem C18_unitary_T : forall rho, Cunitary 2 (meval rho (m_T)).
Proof. exact T_unitary. Qed.
Theorem C18_unitary_SqrtX : forall rho, Cunitary 2 (meval rho (m_SX)).
Proof. exact SqrtX_unitary. Qed.
Theorem C18_unitary_CNOT : forall rho, Cunitary 4 (meval rho (ctl 2 1 m_X)).
Proof. exact CNOT_unitary. Qed.
Theorem C18_unitary_CCX : forall rho, Cunitary 8 (meval rho (ctl 2 2 m_X)).
Proof. exact CCX_unitary. Qed.
Theorem C18_unitary_RC3X : forall rho, Cunitary 16 (meval rho (m_RC3X)).
Proof. exact RC3X_unitary. Qed.
Theorem C18_unitary_H2 : forall rho, Cunitary 2 (meval rho (m_H 2)).
Proof. exact H2_unitary. Qed.
Theorem C18_unitary_H3 : forall rho, Cunitary 3 (meval rho (m_H 3)).
Proof. exact H3_unitary. Qed.
Theorem C18_unitary_Swap3 : forall rho, Cunitary 9 (meval rho (m_swap 3)).
Proof. exact Swap3_unitary. Qed.
Theorem C18_unitary_CSUM3 : forall rho, Cunitary 9 (meval rho (m_csum 3)).
Proof. exact CSUM3_unitary. Qed.

(* CKMGate / CKMdgGate are unitary, but their hand-written get_grad is NOT the derivative
   of get_unitary (finding C18-F1; witness params (0,0,0,pi/2), d/d params[0]). *)
Theorem C18_unitary_CKM : forall rho, Cunitary 3 (meval rho (m_CKM false)).
Proof. exact CKM_unitary. Qed.
Theorem C18_unitary_CKMdg : forall rho, Cunitary 3 (meval rho (m_CKM true)).
Proof. exact CKMdg_unitary. Qed.
Theorem C18_grad_CKM_refuted : ~ grad_ok G_CKM.
Proof. exact CKM_grad_refuted. Qed.
Theorem C18_grad_CKMdg_refuted : ~ grad_ok G_CKMdg.
Proof. exact CKMdg_grad_refuted. Qed.
(* the repaired gradients (fixes/C18-F1.patch, transcribed as g_CKM_fixed) are the derivative *)
Theorem C18_grad_CKM_repaired : grad_ok G_CKM_fixed.
Proof. exact CKM_fixed_grad. Qed.
Theorem C18_grad_CKMdg_repaired : grad_ok G_CKMdg_fixed.
Proof. exact CKMdg_fixed_grad. Qed.

(* ===== composed gates, generic in the inner gate ================================ *)
(* ControlledGate (any number of controls, radixes, sets of control levels):
   l = rev (combine control_radixes control_levels); dim_rev l = prod control_radixes. *)
Theorem C18_composed_controlled_dim : forall cr cl, length cl = length cr ->
  dim_rev (rev (combine cr cl)) = fold_right Nat.mul 1 cr.
Proof. exact controlled_dim. Qed.
(* it is the block matrix the docstring says: the gate on the blocks whose control
   digits all lie in their level sets, the identity on the other blocks *)
Theorem C18_composed_controlled_block : forall cr cl d U,
  List.Forall (fun rl => 0 < fst rl) (rev (combine cr cl)) -> 0 < d ->
  meq (dim_rev (rev (combine cr cl)) * d) (Ccontrolled cr cl d U)
      (blockdiag C C0 d (fun c => if active_rev (rev (combine cr cl)) c then U else Cid)).
Proof. exact Ccontrolled_block. Qed.
Theorem C18_composed_controlled_unitary : forall cr cl d U,
  List.Forall (fun rl => 0 < fst rl) (rev (combine cr cl)) -> 0 < d ->
  Cunitary d U -> Cunitary (dim_rev (rev (combine cr cl)) * d) (Ccontrolled cr cl d U).
Proof. exact Ccontrolled_unitary. Qed.
(* get_grad = kron(ctrl, grads) is the derivative of get_unitary *)
Theorem C18_composed_controlled_grad : forall cr cl d U x G,
  List.Forall (fun rl => 0 < fst rl) (rev (combine cr cl)) -> 0 < d ->
  Mderiv d U x G ->
  Mderiv (dim_rev (rev (combine cr cl)) * d) (fun t => Ccontrolled cr cl d (U t)) x (Ccontrolled_grad cr cl d G).
Proof. exact Ccontrolled_grad_correct. Qed.
(* the executable (extracted, correspondence-checked) construction means the semantic one *)
Theorem C18_model_controlled : forall rho cr cl d U,
  meval rho (scontrolled cr cl d U) = Ccontrolled cr cl d (meval rho U).
Proof. exact meval_controlled. Qed.

(* DaggerGate *)
Theorem C18_composed_dagger_involutive : forall U i j, dagger Cconj (dagger Cconj U) i j = U i j.
Proof. exact Cdagger_involutive. Qed.
Theorem C18_composed_dagger_unitary : forall n U, Cunitary n U -> Cunitary n (dagger Cconj U).
Proof. exact Cdagger_unitary. Qed.
Theorem C18_composed_dagger_inverse : forall n U, Cunitary n U -> meq n (Cmmul n (dagger Cconj U) U) Cid.
Proof. exact Cdagger_inverse. Qed.
Theorem C18_composed_dagger_grad : forall n U x G,
  Mderiv n U x G -> Mderiv n (fun t => dagger Cconj (U t)) x (dagger Cconj G).
Proof. exact Cdagger_grad. Qed.

(* PowerGate: the square-and-multiply code computes the k-fold product (of the dagger for
   negative powers, the identity for 0); it is unitary; the gradient it returns is the
   derivative of the power *)
Theorem C18_composed_power_product : forall n U (k : nat),
  meq n (Cpower_unitary n U (Z.of_nat k)) (Cmpow n U k).
Proof. exact Cpower_is_product. Qed.
Theorem C18_composed_power_negative : forall n U (k : nat),
  meq n (Cpower_unitary n U (- Z.of_nat k)) (Cmpow n (dagger Cconj U) k).
Proof. exact Cpower_neg_is_product. Qed.
Theorem C18_composed_power_unitary : forall n U k, Cunitary n U -> Cunitary n (Cpower_unitary n U k).
Proof. exact Cpower_unitary_unitary. Qed.
Theorem C18_composed_power_grad : forall n U x G k, Mderiv n U x G ->
  Mderiv n (fun t => Cpower_unitary n (U t) k) x (snd (Cpower n (U x, G) k)).
Proof. exact Cpower_grad_correct. Qed.
Theorem C18_model_power : forall rho n U k,
  meval rho (spower_unitary n U k) = Cpower_unitary n (meval rho U) k.
Proof. exact meval_power_unitary. Qed.

(* EmbeddedGate._map_matrix with an injective level map: the gate on the chosen levels,
   the initial matrix (identity / zero gradient) everywhere else *)
Theorem C18_composed_embedded_on : forall gdim tgt (small init : Cmat) i j,
  i < gdim -> j < gdim -> (forall a b, a < gdim -> b < gdim -> tgt a = tgt b -> a = b) ->
  map_matrix gdim tgt small init (tgt i) (tgt j) = small i j.
Proof. exact (map_matrix_on C). Qed.
Theorem C18_composed_embedded_off : forall gdim tgt (small init : Cmat) I J,
  (forall k, k < gdim -> tgt k <> I) \/ (forall k, k < gdim -> tgt k <> J) ->
  map_matrix gdim tgt small init I J = init I J.
Proof. exact (map_matrix_off C). Qed.

(* FrozenParameterGate.get_full_params (args.insert in sorted key order), for every valid
   frozen dict (distinct keys < num_params) and every parameter list of the right length:
   the result has num_params entries, each frozen value sits at its own index, and reading
   the result at the unfrozen indices gives back the free parameters in order *)
Theorem C18_composed_frozen_length : forall (A : Type) n (frozen : list (nat * A)) params,
  frozen_valid n frozen = true -> length params = n - length frozen ->
  length (full_params frozen params) = n.
Proof. exact full_params_length. Qed.
Theorem C18_composed_frozen_values : forall (A : Type) (d : A) n frozen params,
  frozen_valid n frozen = true -> length params = n - length frozen ->
  forall k x, In (k, x) frozen -> nth k (full_params frozen params) d = x.
Proof. exact full_params_frozen. Qed.
Theorem C18_composed_frozen_free : forall (A : Type) (d : A) n frozen params,
  frozen_valid n frozen = true -> length params = n - length frozen ->
  map (fun u => nth u (full_params frozen params) d) (unfixed_idxs n frozen) = params.
Proof. exact full_params_free. Qed.
(* get_full_params is SUBSTITUTION BY INDEX (position p = the frozen value of key p, otherwise
   the free parameter number p - #{frozen keys < p}); [by_index] neither sorts nor depends on the
   order of the list of (key, value) pairs ... *)
Theorem C18_composed_frozen_by_index : forall (A : Type) (d : A) n frozen params,
  frozen_valid n frozen = true -> length params = n - length frozen ->
  full_params frozen params = by_index A d n frozen params.
Proof. exact full_params_by_index. Qed.
(* ... hence for any two insertion orders of the same finite map (the python dict's
   iteration order) the full parameter vector - and so the gate - is the same.  The model
   [full_params] follows the code's loop literally: sorted(keys), list.insert one by one. *)
Theorem C18_composed_frozen_order_irrelevant : forall (A : Type) (d : A) n (frozen frozen' : list (nat * A)) params,
  frozen_valid n frozen = true -> frozen_valid n frozen' = true -> length params = n - length frozen ->
  Permutation frozen frozen' -> full_params frozen params = full_params frozen' params.
Proof. exact full_params_order_irrelevant. Qed.
(* frozen = substitution, gradient rows dropped consistently: the substitution puts the
   constant q at a frozen index, the new parameter t at the t-th unfrozen index, and the
   derivative w.r.t. the new parameter t is the substituted partial derivative w.r.t. that
   index - which is the row grads[unfixed_param_idxs][t] the class returns *)
Theorem C18_composed_frozen_subst_const : forall n fz k q,
  frozen_valid n fz = true -> In (k, q) fz -> frozen_subst n fz k = RQ q.
Proof. exact frozen_subst_frozen. Qed.
Theorem C18_composed_frozen_subst_var : forall n fz t,
  frozen_valid n fz = true -> t < n - length fz ->
  frozen_subst n fz (nth t (unfixed_idxs n fz) 0) = RVar t.
Proof. exact frozen_subst_free. Qed.
Theorem C18_composed_frozen_grad : forall (e : cexpr) (s : nat -> rexpr) (t u : nat) rho,
  s u = RVar t ->
  (forall k, k <> u -> forall x, reval (upd rho t x) (s k) = reval rho (s k)) ->
  is_Cderive (fun x => ceval (upd rho t x) (csubst s e)) (rho t) (ceval rho (csubst s (cderiv u e))).
Proof. exact subst_deriv. Qed.

(* ===== equality and hashing of cached gate classes ================================ *)
(* model of CachedClass.__new__ (gate/EqHash.v, correspondence-checked on call sequences):
   the same hashable (cls, args, kwargs) returns the SAME instance, whatever was constructed
   in between - equal construction arguments give equal gates with equal hashes *)
Theorem C18_eq_hash_same_args : forall st k calls, cacheable k = true ->
  snd (cc_new (cc_state (fst (cc_new st k)) calls) k) = snd (cc_new st k).
Proof. exact same_key_same_instance. Qed.
(* different hashable argument tuples give different instances (unequal gates for the classes
   that do not define __eq__) *)
Theorem C18_eq_hash_distinct_args : forall st k k' calls i j, inv st ->
  cacheable k = true -> cacheable k' = true -> k <> k' ->
  snd (cc_new st k) = Inst i ->
  snd (cc_new (cc_state (fst (cc_new st k)) calls) k') = Inst j -> i <> j.
Proof. exact distinct_keys_distinct_instances. Qed.
(* ... and therefore the full statement "equal gates are equal and hash equally" is refuted
   for those classes: HGate(), HGate(2), HGate(radix=2) all have radix 2 and are three
   different instances (finding C18-F9) *)
Theorem C18_eq_hash_default_args_refuted :
  hgate_radix h_default = Some 2%Z /\ hgate_radix h_pos = Some 2%Z /\ hgate_radix h_kw = Some 2%Z /\
  cc_run cinit [h_default; h_pos; h_kw; h_default] = [Inst 0; Inst 1; Inst 2; Inst 0].
Proof. exact default_args_refuted. Qed.

(* EmbeddedGate of a unitary is unitary whenever the level maps induce an injection of the
   gate's basis states into the larger system (decided by [inj_range_b] for concrete maps) *)
Theorem C18_composed_embedded_unitary : forall gdim n tgt U,
  (forall a b, a < gdim -> b < gdim -> tgt a = tgt b -> a = b) -> (forall k, k < gdim -> tgt k < n) ->
  Cunitary gdim U -> Cunitary n (map_matrix gdim tgt U Cid).
Proof. exact Cembedded_unitary. Qed.
Theorem C18_composed_embedded_gate_unitary : forall gate_rx big_rx maps U,
  inj_range_b (fold_right Nat.mul 1 gate_rx) (fold_right Nat.mul 1 big_rx) (emb_target gate_rx big_rx maps) = true ->
  Cunitary (fold_right Nat.mul 1 gate_rx) U ->
  Cunitary (fold_right Nat.mul 1 big_rx) (embedded C0 C1 gate_rx big_rx maps U).
Proof. exact Cembedded_gate_unitary. Qed.
Theorem C18_model_embedded : forall rho gate_rx big_rx maps U,
  meval rho (embedded c0 c1 gate_rx big_rx maps U) = embedded C0 C1 gate_rx big_rx maps (meval rho U).
Proof. exact meval_embedded. Qed.

(* ===== permutation and diagonal gates, every dimension ============================= *)
(* The permutation matrix of a bijection of {0..n-1} (column j has its 1 in row f j) is
   unitary and its dagger is the permutation matrix of the inverse bijection: the algebraic
   content of PermutationMatrix / PermutationGate / ShiftGate / SwapGate / CSUMGate. *)
Theorem C18_permutation_unitary : forall n f g,
  (forall j, j < n -> f j < n) -> (forall i, i < n -> g i < n) ->
  (forall j, j < n -> g (f j) = j) -> (forall i, i < n -> f (g i) = i) ->
  Cunitary n (pmat C0 C1 f).
Proof. exact Cpmat_unitary. Qed.
Theorem C18_permutation_inverse : forall n f g,
  (forall j, j < n -> g (f j) = j) -> (forall i, i < n -> f (g i) = i) ->
  meq n (dagger Cconj (pmat C0 C1 f)) (pmat C0 C1 g).
Proof. exact Cpmat_inverse. Qed.
(* a diagonal matrix of unit-modulus entries is unitary *)
Theorem C18_diagonal_unitary : forall n d,
  (forall i, i < n -> Cmult (d i) (Cconj (d i)) = C1) -> Cunitary n (dmat C0 d).
Proof. exact Cdmat_unitary. Qed.
(* a class with the default (expression) gradient and no get_inverse_params override
   satisfies the whole contract as soon as it is unitary for all parameters *)
Theorem C18_contract_of_unitary : forall g,
  g_grad g = None -> g_inv g = None -> (g_expr g = None \/ g_expr g = Some (g_mat g)) ->
  (forall rho, Cunitary (g_dim g) (meval rho (g_mat g))) -> gate_contract g.
Proof. exact contract_of_unitary. Qed.
(* The radix / size parameterised families, for EVERY constructor argument (C18_library_contract
   has them at the grid points only) and all real parameters: unitary, gradient = derivative,
   expression backend = numpy override.  The transcriptions G_xxx are the ones the extracted
   model prints and the harness compares with the classes at radix 2-5 / sizes 1-3. *)
Theorem C18_contract_Shift_all : forall r, 0 < r -> gate_contract (G_Shift r).
Proof. exact Shift_contract_all. Qed.
Theorem C18_inverse_Shift_all : forall r, 0 < r ->
  meq r (dagger Cconj (pmat C0 C1 (fun j => (j + 1) mod r))) (pmat C0 C1 (fun i => (i + (r - 1)) mod r)).
Proof. exact Shift_inverse_all. Qed.
Theorem C18_contract_Clock_all : forall r, gate_contract (G_Clock r).
Proof. exact Clock_contract_all. Qed.
Theorem C18_contract_PD_all : forall idx r, gate_contract (G_PD idx r).
Proof. exact PD_contract_all. Qed.
Theorem C18_contract_ArbitraryCPhase_all : forall rx, gate_contract (G_ACP rx).
Proof. exact ACP_contract_all. Qed.
Theorem C18_contract_Diagonal_all : forall n, gate_contract (G_Diag n).
Proof. exact Diag_contract_all. Qed.
Theorem C18_contract_MPRZ_all : forall n t, gate_contract (G_MPRZ n t).
Proof. exact MPRZ_contract_all. Qed.
Theorem C18_contract_PauliZ_all : forall n, gate_contract (G_PauliZ n).
Proof. exact PauliZ_contract_all. Qed.

(* The part of the property with no theorem (kept visible as a proposition): calc_params of a
   GeneralGate reproduces its argument up to global phase - here for U3Gate, where the code's
   formula (det, angle, arctan2) would be the witness.  Checked by the oracle only. *)
Definition C18_calc_params_U3_full : Prop :=
  forall V : Cmat, Cunitary 2 V ->
  exists (rho : env) (phi : R), meq 2 (meval rho m_U3) (fun i j => Cmult (cis phi) (V i j)).

(* What is NOT proved: calc_params / optimize (implementation oracle only), the hand-written
   __eq__/__hash__ methods, the matrix-exponential / SVD classes (listed as uncovered in the
   evidence), injectivity of emb_target for ALL valid level maps (decided per instance). *)

(* ===== non-vacuity ============================================================ *)
Example C18_nonvacuous_U3 :
  In G_U3 (fixed_gates ++ grid_gates) /\ g_nparams G_U3 = 3 /\
  ceval (fun _ => 0%R) (m_U3 0 0) = RtoC 1.
Proof. split; [simpl; tauto|]. split; [reflexivity|]. simpl.
  replace (0 * Q2R (1 # 2))%R with 0%R by ring. rewrite cos_0. reflexivity. Qed.
(* the controlled construction on a concrete qutrit control with level set {0,2}:
   configuration 1 is inactive, 0 and 2 are active; radixes are positive *)
Example C18_nonvacuous_controlled :
  List.Forall (fun rl => 0 < fst rl) (rev (combine [3] [[0; 2]])) /\
  dim_rev (rev (combine [3] [[0; 2]])) = 3 /\
  map (active_rev (rev (combine [3] [[0; 2]]))) [0; 1; 2] = [true; false; true].
Proof. split; [repeat constructor|]. split; reflexivity. Qed.
(* the library is non-empty and contains parameterised, constant and qutrit classes *)
(* a qubit gate on levels 0 and 2 of a qutrit: the side condition holds *)
Example C18_nonvacuous_embedded :
  inj_range_b 2 3 (emb_target [2] [3] [[0; 2]]) = true /\ map (emb_target [2] [3] [[0; 2]]) [0; 1] = [0; 2].
Proof. split; reflexivity. Qed.
Example C18_nonvacuous_frozen :
  frozen_valid 3 [(2, 7); (0, 5)] = true /\
  full_params [(2, 7); (0, 5)] [9] = [5; 9; 7] /\ unfixed_idxs 3 [(2, 7); (0, 5)] = [1] /\
  full_params [(0, 5); (2, 7)] [9] = [5; 9; 7] /\ by_index nat 0 3 [(2, 7); (0, 5)] [9] = [5; 9; 7].
Proof. repeat split. Qed.
Example C18_nonvacuous_eq_hash :
  inv cinit /\ cacheable h_pos = true /\ h_pos <> h_kw.
Proof. split; [apply inv_init|]. split; [reflexivity | discriminate]. Qed.
Example C18_nonvacuous_library :
  length (fixed_gates ++ grid_gates) = 115 /\ In (G_H 3) (fixed_gates ++ grid_gates).
Proof. split; [reflexivity | simpl; tauto]. Qed.
(* the 7-level shift is a 7-cycle: hypotheses of C18_permutation_unitary hold and the matrix is
   not the identity; the qudit clock entry at level 1 of radix 7 is a genuine phase *)
Example C18_nonvacuous_permdiag :
  map (fun j => (j + 1) mod 7) (seq 0 7) = [1; 2; 3; 4; 5; 6; 0] /\
  map (fun i => (i + (7 - 1)) mod 7) [1; 2; 3; 4; 5; 6; 0] = seq 0 7 /\
  g_dim (G_Shift 7) = 7 /\ g_mat (G_Shift 7) 0 6 = c1 /\ g_mat (G_Shift 7) 0 0 = c0 /\
  g_nparams (G_PauliZ 4) = 16 /\ g_dim (G_PauliZ 4) = 16 /\ g_dim (G_ACP [3; 4]) = 12.
Proof. repeat split. Qed.
