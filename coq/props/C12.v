(* C12 - cancelling work removes it everywhere and disturbs nothing else.
   [run fx f8 P ..]: f8 = true is the code since /repo 5dfab15 (a task discarded because of a cancelled breadcrumb is
   forgotten), f8 = false the code before (D8).
   Every theorem is stated for both variants of the completion loop: fx = true is the loop of /repo since 046ff56
   (iterates over a copy), fx = false the loop before that commit (D14); the harness selects the variant that the
   implementation exhibits (fx = true on the current tree).
   Statements only; proofs live in rt/CancelThm.v, the model in rt/CancelM.v.
   [run fx f8 P s evs = Some (s', labels)] executes a schedule (list of events) of the whole system (workers, server,
   FIFO channels, clients); every delivery order of CANCEL relative to SUBMIT / RESULT / task steps is such a
   schedule.  Labels record what happened: LRun k t (the body of task t takes a step on worker id k),
   LObs k a mb nx vals (an await/next of task a returned the values vals of mailbox mb), LCancel k a mb n
   (task a executed `cancel` on its mailbox mb), ... *)
From Coq Require Import List Arith Bool Lia.
Import ListNotations.
From BQ Require Import rt.CancelM rt.CancelThm rt.CancelTree rt.CancelTreeThm.

(* After `cancel fut` (mailbox mb of worker k) executes - explicitly or through task completion - no await/next on that
   worker ever returns a value of that mailbox again, in any continuation of any schedule, and the mailbox stays
   dropped (its id is never reused). *)
Theorem C12_no_delivery : forall fx f8 P nw evs1 e evs2 s1 l1 s2 l2 s3 l3 wid a mb n,
  run fx f8 P (init_sys nw) evs1 = Some (s1, l1) -> step fx f8 P s1 e = Some (s2, l2) -> In (LCancel wid a mb n) l2 ->
  run fx f8 P s2 evs2 = Some (s3, l3) ->
  exists k, wid = S k /\ e = EStep k
    /\ (forall a' nx vals, ~ In (LObs wid a' mb nx vals) l3)
    /\ dropped_at s3 k mb.
Proof. exact no_delivery. Qed.

(* ... and a RESULT that arrives for a dropped mailbox is discarded without touching the worker. *)
Theorem C12_result_discarded : forall w x mb slot v, lookup_b mb (w_boxes w) = None ->
  handle_result (x, mb, slot) v w = Some (w, [LDiscard (w_id w) (x, mb, slot) v]).
Proof. exact result_discarded. Qed.

(* Once worker k has handled CANCEL(c), no body of a descendant of c (by breadcrumbs) takes a step on worker k. *)
Theorem C12_descendants_not_run : forall fx f8 P nw evs1 k evs2 s1 l1 s2 l2 s3 l3 c q,
  run fx f8 P (init_sys nw) evs1 = Some (s1, l1) ->
  nth_error (sy_down s1) k = Some (MCancel c :: q) -> step fx f8 P s1 (EDown k) = Some (s2, l2) ->
  run fx f8 P s2 evs2 = Some (s3, l3) ->
  forall t, In (LRun (S k) t) l3 -> desc c t = false.
Proof. exact descendants_not_run. Qed.

(* Awaiting a cancelled future fails.  If the task selected by _get_next_ready_task is about to `await futs[f]`
   (or `await next(futs[f])`) and the mailbox of that future is gone - which C12_no_delivery shows is the case for ever
   after a cancel - the step raises ('Cannot await on a canceled task.' / 'Cannot wait on an already completed
   result.'): nothing is delivered, the mailboxes are untouched, and the ERROR goes upstream unless the task itself
   is known to be cancelled. *)
Theorem C12_await_fails : forall fx f8 P w0 rt0 w out0 lab0 prog f mb (nx : bool),
  (w_blocked w0 && match w_ready w0 with [] => true | _ => false end) = false ->
  select f8 w0 = (Some rt0, w, out0, lab0) ->
  rt_desired rt0 = None ->
  nth_error P (t_prog (rt_task rt0)) = Some prog ->
  nth_error prog (rt_pc rt0) = Some (if nx then INext f else IAwait f) ->
  nth_error (rt_futs rt0) f = Some mb ->
  lookup_b mb (w_boxes w0) = None ->
  let kind := if nx then K_NEXT_COMPLETED else K_AWAIT_CANCELLED in
  let sent := negb (dead_on w0 (rt_task rt0)) in
  exists w',
    wstep fx f8 P w0 = Some (w', out0 ++ (if sent then [MError (t_comp (rt_task rt0)) kind] else []),
                       (lab0 ++ [LRun (w_id w0) (rt_task rt0)]) ++ [LErr (w_id w0) (t_addr (rt_task rt0)) kind sent])
    /\ w_boxes w' = w_boxes w0.
Proof. exact await_fails. Qed.

(* Nothing else is disturbed (partial form of the simulation statement below).  In every step of every run:
   (1) an address held by a worker (started or delayed task) is still held afterwards, unless the task completed in
       this step (LDone) or was removed by _handle_cancel (LDrop) - and then it is a descendant of an address a CANCEL
       was really issued for;
   (2) a ready-queue entry that _get_next_ready_task discards while the task is still in _tasks belongs to such a
       descendant;
   (3) every `cancel` is executed by the task that owns the mailbox (it created it in this step, or it is in its
       owned_mailboxes): a task can only ever cancel its own children. *)
Theorem C12_others_unaffected_partial : forall fx f8 P nw evs s0 l0 e s' l,
  run fx f8 P (init_sys nw) evs = Some (s0, l0) -> step fx f8 P s0 e = Some (s', l) ->
  (forall k ws ws' a, nth_error (sy_workers s0) k = Some ws -> nth_error (sy_workers s') k = Some ws' ->
     holds_addr ws a ->
     holds_addr ws' a
     \/ (exists t, In (LDone (S k) t) l /\ t_addr t = a)
     \/ (exists t, In (LDrop (S k) t) l /\ t_addr t = a /\ dead (sy_issued s') t = true)
     \/ (exists t, In (LSkip (S k) a (Some t)) l /\ dead (sy_issued s') t = true))
  /\ (forall wid a t, In (LSkip wid a (Some t)) l -> dead (sy_issued s') t = true)
  /\ (forall wid a mb n, In (LCancel wid a mb n) l ->
        exists k ws, wid = S k /\ e = EStep k /\ nth_error (sy_workers s0) k = Some ws
          /\ (w_counter ws <= mb \/ exists rt, lookup_t a (w_tasks ws) = Some rt /\ In mb (rt_owned rt))).
Proof. exact only_cancelled_work_removed. Qed.

(* The full statement (not proved): the projection of any run onto the tasks that are not descendants of an issued
   CANCEL is a run of the cancel-free system obtained by erasing the cancelled sub-trees from the scripts.  [erase]
   stands for that erasure of programs, [proj] for dropping the labels of cancelled tasks. *)
Definition C12_others_unaffected_full : Prop :=
  forall (erase : list addr -> progs -> progs) (proj : list addr -> list label -> list label),
  forall fx f8 P nw evs s l, run fx f8 P (init_sys nw) evs = Some (s, l) ->
  exists evs' s' l', run fx f8 (erase (sy_issued s) P) (init_sys nw) evs' = Some (s', l')
     /\ sy_issued s' = [] /\ proj (sy_issued s) l = l'.

(* Client cancel (server code as of /repo 50308af).  In every reachable state, when the server handles CANCEL(id) from
   client c for one of c's own live tasks (id in clients[c]: running, or finished but not yet delivered): afterwards the
   server holds NOTHING of it - no tasks[id], no mailbox_to_task_dict entry, no mailbox, id gone from clients[c];
   CANCEL(root address) is appended to the channel of EVERY worker; and in every continuation mailbox and
   mailbox_to_task_dict entry never reappear, so a late RESULT (C12_server_result_discarded) and a late ERROR / LOG
   (C12_server_error_discarded) are dropped instead of reaching the client. *)
Theorem C12_client_cancel : forall fx f8 P nw evs s0 l0 c id asg s1 l1 ids,
  run fx f8 P (init_sys nw) evs = Some (s0, l0) -> step fx f8 P s0 (EClient c (CCancel id) asg) = Some (s1, l1) ->
  lookup_n c (s_clients (sy_server s0)) = Some ids -> In id ids ->
  exists mb, lookup_n id (s_tasks (sy_server s0)) = Some (mb, c)
    /\ lookup_n id (s_tasks (sy_server s1)) = None
    /\ lookup_n mb (s_m2t (sy_server s1)) = None
    /\ lookup_n mb (s_boxes (sy_server s1)) = None
    /\ (forall ids', lookup_n c (s_clients (sy_server s1)) = Some ids' -> ~ In id ids')
    /\ (forall k q, nth_error (sy_down s0) k = Some q -> nth_error (sy_down s1) k = Some (q ++ [MCancel (0, mb, 0)]))
    /\ sy_issued s1 = sy_issued s0 ++ [(0, mb, 0)]
    /\ (forall evs2 s2 l2, run fx f8 P s1 evs2 = Some (s2, l2) ->
          lookup_n mb (s_boxes (sy_server s2)) = None /\ lookup_n mb (s_m2t (sy_server s2)) = None).
Proof. exact client_cancel. Qed.

(* CANCEL for anything else (finished and delivered, cancelled before, unknown, another client's task) is only
   acknowledged: no table, channel or worker changes, nothing is issued ... *)
Theorem C12_client_cancel_other : forall fx f8 P nw evs s0 l0 c id asg s1 l1 ids,
  run fx f8 P (init_sys nw) evs = Some (s0, l0) -> step fx f8 P s0 (EClient c (CCancel id) asg) = Some (s1, l1) ->
  lookup_n c (s_clients (sy_server s0)) = Some ids -> ~ In id ids ->
  sy_server s1 = sy_server s0 /\ sy_down s1 = sy_down s0 /\ sy_up s1 = sy_up s0 /\ sy_workers s1 = sy_workers s0
  /\ sy_issued s1 = sy_issued s0.
Proof. exact client_cancel_other. Qed.

(* ... and the handler never raises for a connected client (D4 is gone). *)
Theorem C12_client_cancel_total : forall fx f8 P nw evs s0 l0 c id asg ids,
  run fx f8 P (init_sys nw) evs = Some (s0, l0) -> lookup_n c (s_clients (sy_server s0)) = Some ids ->
  exists s1 l1, step fx f8 P s0 (EClient c (CCancel id) asg) = Some (s1, l1).
Proof. exact client_cancel_total. Qed.

Theorem C12_server_error_discarded : forall nw comp kind asg s, lookup_n comp (s_m2t s) = None ->
  sup nw (MError comp kind) asg s = Some (s, no_out, []).
Proof. exact sup_error_discarded. Qed.

Theorem C12_server_result_discarded : forall nw mb slot v by_ asg s, lookup_n mb (s_boxes s) = None ->
  sup nw (MResult (0, mb, slot) v by_) asg s = Some (s, no_out, [LSrvDiscard mb v]).
Proof. exact sup_discards. Qed.

(* Client disconnect.  Afterwards the server holds nothing of that client: no `clients` entry, no `tasks` entry naming
   the connection, no `mailbox_to_task_dict` entry and no mailbox of any of its tasks (now and in every continuation);
   the only CANCELs it issues are for that client's own root tasks, and each of them is in the channel of every worker. *)
Theorem C12_client_disconnect : forall fx f8 P nw evs s0 l0 c order asg s1 l1,
  run fx f8 P (init_sys nw) evs = Some (s0, l0) -> step fx f8 P s0 (EClient c (CDisconnect order) asg) = Some (s1, l1) ->
  lookup_n c (s_clients (sy_server s1)) = None
  /\ (forall id mb, ~ In (id, (mb, c)) (s_tasks (sy_server s1)))
  /\ (forall id mb, lookup_n id (s_tasks (sy_server s0)) = Some (mb, c) ->
        lookup_n id (s_tasks (sy_server s1)) = None /\ lookup_n mb (s_m2t (sy_server s1)) = None
        /\ lookup_n mb (s_boxes (sy_server s1)) = None
        /\ forall evs2 s2 l2, run fx f8 P s1 evs2 = Some (s2, l2) ->
             lookup_n mb (s_boxes (sy_server s2)) = None /\ lookup_n mb (s_m2t (sy_server s2)) = None)
  /\ (forall a, In a (sy_issued s1) -> In a (sy_issued s0)
        \/ exists id mb, lookup_n id (s_tasks (sy_server s0)) = Some (mb, c) /\ a = (0, mb, 0))
  /\ (forall a k q, In a (sy_issued s1) -> ~ In a (sy_issued s0) -> nth_error (sy_down s1) k = Some q -> In (MCancel a) q).
Proof. exact client_disconnect. Qed.

(* Quiescent cleanliness, for ALL schedules (code since /repo 5dfab15, f8 = true; both completion-loop variants).
   Whenever the system is quiescent (all channels empty, every ready queue and every _delayed_tasks list empty) no
   worker holds a started or delayed task that is a descendant of an address a CANCEL was issued for, nor the mailbox
   of a cancelled future - including the runs in which a SUBMIT is handled after the CANCEL of an ancestor (the former
   D8).  The proof shows (i) over FIFO channels a task is never delivered to a worker after the CANCEL of its OWN
   address ([ord]), (ii) a task the worker knows to be cancelled is always still in the ready queue and is forgotten
   when popped ([wgood]), (iii) an issued CANCEL is handled by, or on its way to, every worker ([cprop]).
   The server side holds nothing of cancelled compilations in EVERY state: C12_client_cancel / C12_client_disconnect. *)
Theorem C12_quiescent_clean : forall fx P nw evs s l,
  run fx true P (init_sys nw) evs = Some (s, l) -> quiescent s = true -> clean s = true.
Proof. exact quiescent_clean. Qed.

(* the FIFO fact used above, on its own: in every reachable state no event delivers a task to a worker that has
   already handled the CANCEL of that task's own address *)
Theorem C12_no_self_overtake : forall fx P nw evs s l e,
  run fx true P (init_sys nw) evs = Some (s, l) -> self_overtaken s e = false.
Proof. exact no_self_overtake_reach. Qed.

(* D8 (historical, fixed in /repo 5dfab15; statement about the old skip, f8 = false): a concrete 10-event run of one
   worker + server + one client ended quiescent with a cancelled task in Worker._tasks. *)
Theorem C12_D8_before_5dfab15 :
  exists s labs, run false false d8_progs (init_sys 1) d8_run = Some (s, labs)
    /\ quiescent s = true /\ clean s = false
    /\ forallb no_orphans (sy_workers s) = true.
Proof. exact d8_witness. Qed.

(* ... and the same schedule under the current code ends clean *)
Example C12_D8_regression :
  exists s labs, run true true d8_progs (init_sys 1) d8_run = Some (s, labs)
    /\ quiescent s = true /\ clean s = true /\ w_tasks (nth 0 (sy_workers s) (init_worker 0)) = [].
Proof. eexists. eexists. split; [vm_compute; reflexivity|]. vm_compute. auto. Qed.

(* D14 (historical, fixed in /repo 046ff56; statement about the old loop, fx = false).  "Task completion cancels its
   unfinished children" was false: a task that returns with
   two un-awaited futures cancels only the first (Worker.cancel removes from the list _process_task_completion is
   iterating over).  The second mailbox outlives its owner for ever, its child is run although nobody can receive its
   result, and no CANCEL is ever issued for it. *)
Theorem C12_completion_cancels_children_refuted :
  exists s labs, run false false d14_progs (init_sys 1) d14_run = Some (s, labs)
    /\ quiescent s = true
    /\ In (LLeft 1 (0, 0, 0) [1]) labs
    /\ In (LRun 1 (mkTask (1, 1, 0) [(0, 0, 0)] 0 1)) labs
    /\ sy_issued s = [(1, 0, 0)]
    /\ forallb no_orphans (sy_workers s) = false.
Proof. exact d14_witness. Qed.

(* With the current loop (fx = true, iterates over a copy) the completion of a task leaves none of the mailboxes it still owned:
   every one of them is dropped, with a CANCEL for its children unless all their results were in. *)
Theorem C12_completion_cancels_children_fixed : forall wid st st',
  completion true wid st = Some st' ->
  forall mb, In mb (rt_owned (c_rt st)) -> lookup_b mb (c_boxes st') = None.
Proof. exact completion_fixed_all. Qed.

(* the D14 scenario under the current loop: both children cancelled, neither is run, nothing is left *)
Example C12_completion_fixed_example :
  exists s labs, run true true d14_progs (init_sys 1)
      [EClient 0 CConnect []; EClient 0 (CSubmit 0 0) [(0, [0])]; EDown 0; EStep 0;
       EUp 0 [(0, [0])]; EUp 0 [(0, [0])]; EUp 0 []; EUp 0 []; EUp 0 [];
       EDown 0; EDown 0; EDown 0; EDown 0; EStep 0; EUp 0 []] = Some (s, labs)
    /\ quiescent s = true /\ clean s = true /\ forallb no_orphans (sy_workers s) = true
    /\ sy_issued s = [(1, 0, 0); (1, 1, 0)] /\ In (LLeft 1 (0, 0, 0) []) labs.
Proof. eexists. eexists. split; [vm_compute; reflexivity|]. vm_compute. auto 20. Qed.

(* Not proved (needs system-wide uniqueness of task addresses, C07's conservation invariant; covered by the
   co-simulation and the oracle only): every mailbox of a worker is owned by a task in its _tasks. *)
Definition C12_no_orphans_full : Prop :=
  forall P nw evs s l, run true true P (init_sys nw) evs = Some (s, l) -> forallb no_orphans (sy_workers s) = true.

(* Manager topologies.  For every tree of managers (node 0 = server, node i > 0 hangs under parent i < i, leaves are
   workers; managers of managers allowed) and every schedule of the CANCEL traffic - a manager forwards a CANCEL from
   below to its boss, the server and every manager broadcast a CANCEL down every link ([route_cancel], co-simulated
   against the real Manager / DetachedServer handlers on every run) - once nothing is in flight every worker has
   handled every CANCEL that any worker issued, wherever the cancelled tasks were placed. *)
Theorem C12_cancel_reaches_every_worker : forall T, wf_topo T -> forall evs s,
  trun T (init_tree T) evs = Some s -> tquiet s = true ->
  forall c w, In c (ts_issued s) -> worker T w -> exists h, nth_error (ts_handled s) w = Some h /\ In c h.
Proof. exact cancel_reaches_every_worker. Qed.

(* server -> 2 managers (nodes 1, 2) -> workers 3 (under 1) and 4, 5 (under 2): worker 3 cancels, all three handle it *)
Example C12_tree_nonvacuous :
  let T := mkTopo [0; 0; 0; 1; 2; 2] in
  wf_topo T /\ worker T 3 /\ worker T 4 /\ worker T 5 /\
  exists s, trun T (init_tree T) [TIssue 3 (4, 0, 0); TUp 3; TUp 1; TDown 2; TDown 1; TDown 5; TDown 3; TDown 4] = Some s
    /\ tquiet s = true /\ ts_handled s = [[]; []; []; [(4, 0, 0)]; [(4, 0, 0)]; [(4, 0, 0)]].
Proof. intros T. split. intros i P L. unfold nnodes, T in L. simpl in L. do 6 (destruct i as [|i]; [unfold parent, T; simpl; lia|]). lia.
  assert (W : forall w, (w = 3 \/ w = 4 \/ w = 5) -> worker T w).
  { intros w H. unfold worker, nnodes, T. simpl. destruct H as [H|[H|H]]; subst w; (split; [lia|split; [lia|vm_compute; reflexivity]]). }
  split. apply W; auto. split. apply W; auto. split. apply W; auto.
  eexists. split; [vm_compute; reflexivity|]. vm_compute. auto. Qed.

(* non-vacuity: a run in which a cancel executes, a result is later discarded and CANCEL is delivered *)
Example C12_nonvacuous :
  exists s labs, run true true [[ISubmit 1; ICancel 0]; []] (init_sys 2)
      [EClient 0 CConnect []; EClient 0 (CSubmit 0 0) [(0, [0])]; EDown 0; EStep 0;
       EUp 0 [(1, [0])]; EDown 1; EStep 1; EUp 0 []; EUp 0 []; EDown 1; EUp 1 []; EDown 0; EDown 0] = Some (s, labs)
    /\ In (LCancel 1 (0, 0, 0) 0 1) labs /\ In (LDiscard 1 (1, 0, 0) 1) labs.
Proof. eexists. eexists. split; [vm_compute; reflexivity|]. vm_compute. auto 20. Qed.

(* non-vacuity of C12_quiescent_clean: a run with a cancel that ends quiescent *)
Example C12_quiescent_nonvacuous :
  let evs := [EClient 0 CConnect []; EClient 0 (CSubmit 0 0) [(0, [0])]; EDown 0; EStep 0;
       EUp 0 [(1, [0])]; EDown 1; EStep 1; EUp 0 []; EUp 0 []; EDown 1; EUp 1 []; EDown 0; EDown 0;
       EStep 0; EStep 1; EUp 0 []; EUp 1 []] in
  let P := [[ISubmit 1; ICancel 0]; []] in
  exists s labs, run true true P (init_sys 2) evs = Some (s, labs) /\ quiescent s = true /\ sy_issued s = [(1, 0, 0)].
Proof. eexists. eexists. split; [vm_compute; reflexivity|]. vm_compute. auto. Qed.

(* non-vacuity of the client theorems: a cancel and a disconnect that the handlers accept *)
Example C12_client_nonvacuous :
  exists s labs, run true true [[ISubmit 1; IAwait 0]; []] (init_sys 2)
      [EClient 0 CConnect []; EClient 1 CConnect []; EClient 0 (CSubmit 0 0) [(0, [0])]; EClient 1 (CSubmit 1 0) [(1, [0])];
       EDown 0; EStep 0; EClient 0 (CCancel 0) []; EClient 1 (CDisconnect [1]) []] = Some (s, labs)
    /\ sy_issued s = [(0, 0, 0); (0, 1, 0)] /\ s_tasks (sy_server s) = [] /\ s_m2t (sy_server s) = []
    /\ s_boxes (sy_server s) = [].
Proof. eexists. eexists. split; [vm_compute; reflexivity|]. vm_compute. auto. Qed.
