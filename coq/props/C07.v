(* C07 - every awaited runtime future resolves exactly once with its own result.
   Only statements closed by `exact`; model in rt/WorkerM.v, proofs in rt/WorkerThm.v. *)
From Coq Require Import List Arith.
Import ListNotations.
From BQ Require Import rt.WorkerM rt.WorkerThm.

(* D7 (finding).  The code as it is (atomic = false): a RESULT handled between
   `box.dest_addr = ...` and `if box.ready` of Worker._process_await puts the awaiting task
   into the ready queue twice; the second wake-up later fails `assert box.ready` in
   _get_desired_result and an ERROR for the compilation reaches the client.
   13 + 9 events on two workers, no cancellation involved. *)
Theorem C07_wake_once_refuted :
  exists s s',
    steps false (sys0 2) d7_schedule = Some s /\ in_scope s = true /\ ~ wake_once s /\
    steps false s d7_continuation = Some s' /\ in_scope s' = true /\
    In EAssertReady (all_errs s') /\ s_errors s' = [0].
Proof. exact d7_double_wake. Qed.
