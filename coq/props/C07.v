(* C07 - every awaited runtime future resolves exactly once with its own result.
   Only statements closed by `exact`; model in rt/WorkerM.v, proofs in rt/WorkerThm.v.

   Vocabulary (defined in rt/WorkerM.v / rt/WorkerThm.v):
     steps atomic (sys0 k) es = Some s   s is reached from k idle workers by the event list es
                                         (EClient / ERecv i / EMain i / EServer i asg: any delivery
                                         order, any interleaving of the two threads of a worker,
                                         any assignment made by the server)
     atomic = false                      the code as it is; atomic = true: _process_await's
                                         registration (dest_addr, wake_on_next, ready test) is one atom
     reachable atomic k s                exists es, steps atomic (sys0 k) es = Some s
     slot_spec sc f i v                  the f-th submit/map of body sc has an i-th child whose body
                                         returns v
     n_task a s                          instances of the task with return address a in a channel,
                                         in a _delayed_tasks or in a _tasks
     n_fin / n_created / n_started       ... that returned / were created / had task.start() called *)
From Coq Require Import List Arith.
Import ListNotations.
From BQ Require Import rt.WorkerM rt.WorkerThm rt.WorkerLive rt.WorkerGnr.
From Coq Require Import ZArith.
From BQ Require Import rt.SchedPre gen.SchedArith rt.Routing rt.TreeNet rt.TreeNetThm rt.TreeNetLive.
Open Scope nat_scope.

(* ---- D7 (finding) -------------------------------------------------------------------
   The code as it is: a RESULT handled between `box.dest_addr = ...` and `if box.ready` of
   Worker._process_await puts the awaiting task into the ready queue twice; the second
   wake-up later fails `assert box.ready` in _get_desired_result and an ERROR for the
   compilation reaches the client.  13 + 9 events on two workers, no cancellation. *)
Theorem C07_wake_once_refuted :
  exists s s',
    steps false (sys0 2) d7_schedule = Some s /\ in_scope s = true /\ ~ wake_once s /\
    steps false s d7_continuation = Some s' /\ in_scope s' = true /\
    In EAssertReady (all_errs s') /\ s_errors s' = [0].
Proof. exact d7_double_wake. Qed.

(* ---- every task is in exactly one place; every body starts at most once ----------------
   For BOTH variants, all schedules, all scripts (cancellation included: the invariant does
   not depend on it). *)
Theorem C07_task_conservation : forall atomic k s, reachable atomic k s ->
  forall a, n_task a s + n_fin a s = n_created a s /\ n_created a s <= 1 /\
            n_started a s <= n_created a s /\
            (quiescent_tasks s -> n_started a s = n_created a s).
Proof. exact task_conservation. Qed.

(* ---- values: every future resolves with its own result --------------------------------
   (1) The value a body receives from `await fut` (taken from mailbox m) is, cell by cell and
       in argument order, the Return value of the children created for that future: one cell
       for submit, one per argument for map; no cell is missing.
   (2) Every (slot, value) returned by next(fut) is the Return value of that slot's child.
   (3) The value the server holds for a client mailbox is the Return value of the root body
       submitted under that mailbox id, and mailbox ids identify roots.
   Both variants, all schedules, all scripts. *)
Theorem C07_slot_values : forall atomic k s, reachable atomic k s ->
  (forall w a sc m f vs, In w (s_workers s) -> In (a, sc, Some m, OAwait f vs) (w_log w) ->
     exists sp, nth_error (specs_of sc) f = Some sp /\ vs = map (fun c => Some (ret_of c)) (kids sp)) /\
  (forall w a sc mo f bt, In w (s_workers s) -> In (a, sc, mo, ONext f bt) (w_log w) ->
     forall i v, In (i, v) bt -> slot_spec sc f i v) /\
  (forall a v, In (a, v) (s_client s) -> In (a_box a, v) (s_roots s)) /\
  (forall b v v', In (b, v) (s_roots s) -> In (b, v') (s_roots s) -> v = v').
Proof. exact slot_values_full. Qed.

(* ---- next(): the batches handed out from one mailbox never repeat a slot; once as many
   results as slots have been handed out, every slot has been seen exactly once ----------- *)
Theorem C07_next_batches : forall atomic k s, reachable atomic k s ->
  forall w m, In w (s_workers s) -> NoDup (map fst (batches m (w_log w))).
Proof. exact next_disjoint. Qed.

Theorem C07_next_batches_complete : forall (bt : list (nat * val)) n,
  NoDup (map fst bt) -> (forall i v, In (i, v) bt -> i < n) -> n <= length bt ->
  forall i, i < n -> In i (map fst bt).
Proof. exact next_covers. Qed.

(* ---- next(): jointly complete needs get_new_results to hand out what was deposited --------
   In rt/WorkerM.v `get_new_results` (read fresh_results, reset it) is ONE atom.  At statement
   granularity (rt/WorkerGnr.v: deposits before S1 `out = self.fresh_results`, between S1 and S2
   `self.fresh_results = []`, and after S2) this is justified for the code as it is because `out`
   aliases the mailbox's list: every schedule returns exactly init++d1++d2 and leaves d3, nothing is
   lost and order is kept.  It is NOT justified for a copying S1 (`out = list(...)`): a deposit
   between S1 and S2 is in no batch -- so C07_next_batches_complete's premise `n <= length bt` is then
   never reached and a counting consumer spins.  The harness drives exactly these schedules on the
   real classes (main thread parked before each source line of get_new_results). *)
Theorem C07_get_new_results_split_complete : forall init d1 d2 d3 rs,
  let s := WorkerGnr.run false (mkSt init NoOut rs) (call d1 d2 d3) in
  returned s = rs ++ [init ++ d1 ++ d2] /\ cur s = d3 /\
  concat (returned s) ++ cur s = concat rs ++ init ++ d1 ++ d2 ++ d3.
Proof. exact gnr_alias_complete. Qed.

Theorem C07_get_new_results_copy_refuted : exists init d1 d2 d3 x,
  let s := WorkerGnr.run true (mkSt init NoOut []) (call d1 d2 d3) in
  In x (init ++ d1 ++ d2 ++ d3) /\ ~ In x (concat (returned s) ++ cur s).
Proof. exact gnr_copy_refuted. Qed.

(* ---- exactly once: no return address ever receives two deposits (in any mailbox, on any
   worker), whatever the delivery order -------------------------------------------------- *)
Theorem C07_result_deposited_once : forall atomic k s, reachable atomic k s -> forall a, n_dep a s <= 1.
Proof. exact deposits_once. Qed.

(* ---- wake-once, for the worker whose await registration is ONE atom (atomic = true) ------
   On every worker that has not entered the cancellation scope (w_oos = false):
   (1) no task address is in the ready queue twice (at most one pending wake-up),
   (2) every queued task is steppable: if its desired mailbox exists, it is ready (await)
       or has a non-None fresh list (next) -- so `assert box.ready` and
       `assert self.fresh_results is not None` cannot fail when it is stepped,
   (3) neither assertion has ever failed.
   C07_wake_once_refuted shows that (1)-(3) are false for the code as it is (D7). *)
Theorem C07_wake_once : forall k s, reachable true k s ->
  forall w, In w (s_workers s) -> w_oos w = false ->
    NoDup (w_ready w) /\
    (forall a, In a (w_ready w) -> steppable w a) /\
    (forall e, In e (w_errs w) -> e <> EAssertReady /\ e <> EAssertFresh).
Proof. exact wake_once_atomic. Qed.

(* ---- no lost wake-up (the worker-local half of deadlock freedom), atomic registration -----
   On a worker in scope that logged no error, every started, unfinished task is either in the
   ready queue or registered on a mailbox that exists, is NOT ready, names the task as its
   dest_addr and is the task's desired mailbox: nobody sleeps on a mailbox whose results have
   all arrived, and nobody sleeps unregistered.  (For the code as it is D7 breaks the wake-up
   discipline, see C07_wake_once_refuted.) *)
Theorem C07_no_deadlock_partial : forall k s, reachable true k s ->
  forall w t, In w (s_workers s) -> w_oos w = false -> w_errs w = [] -> In t (w_tasks w) ->
    In (t_addr t) (w_ready w) \/
    exists m b, box_get m (w_boxes w) = Some b /\ b_dest b = Some (t_addr t) /\ b_ready b = false /\ t_desired t = Some m.
Proof. exact no_lost_wakeup. Qed.

(* ---- not proved: absence of deadlock --------------------------------------------------
   Full statement kept visible.  Missing beyond C07_no_deadlock_partial, C07_task_conservation and
   C07_result_deposited_once: the global descent (the child a sleeping task waits for is itself
   unfinished, and bodies nest finitely).  The full statement is evaluated by the harness oracle on
   every co-simulated run of the real runtime (symptom `deadlock` / `no-result`) and by the exhaustive
   exploration of the model on small scenarios, not proved in Coq. *)
Definition quiescent (s : sys) : Prop :=
  (forall q, In q (s_down s) -> q = []) /\
  (forall w, In w (s_workers s) -> w_out w = [] /\ w_delayed w = [] /\ w_ready w = [] /\ w_pc w = PBlocked).
Definition C07_no_deadlock_full : Prop :=
  forall k s, reachable true k s -> in_scope s = true -> all_errs s = [] -> s_fatal s = false -> quiescent s ->
    (forall w, In w (s_workers s) -> w_tasks w = []) /\
    (forall b v, In (b, v) (s_roots s) -> In (mkAddr DClient b 0, v) (s_client s)).

(* ---- non-vacuity: a run in which a map of two and a submit are awaited, on 2 workers ---- *)
Definition ex_root : script := [Map [[Return 5]; [Return 6]]; Submit [Return 7]; Await 0; Await 1; Return 1].
(* the event list of a run of the REAL runtime (harness/rtsim.py, seed 1), replayed by the model *)
Definition ex_run : list event :=
  [EClient ex_root 1; EMain 0; EMain 1; EMain 0; ERecv 1; EServer 0 []; EMain 1; EServer 1 [(0,[0]); (1,[1])];
   EServer 1 [(0,[0])]; EMain 1; ERecv 1; ERecv 0; ERecv 0; EMain 1; EMain 0; EServer 0 []; ERecv 1; EMain 0;
   EMain 1; EMain 1; EMain 0; EMain 1; EMain 0; EMain 1; EMain 0; EServer 0 []; EServer 0 []; EServer 1 [];
   ERecv 1; EMain 1; EMain 1; EMain 1; EMain 1; EMain 1; EMain 1; EServer 1 []; EMain 1; EMain 1; EServer 1 []].
Definition ex_root_addr : addr := mkAddr DClient 0 0.

Example C07_nonvacuous :
  exists s, steps false (sys0 2) ex_run = Some s /\ reachable false 2 s /\
    s_client s = [(ex_root_addr, 1)] /\ s_roots s = [(0, 1)] /\
    In (ex_root_addr, ex_root, Some 0, OAwait 0 [Some 5; Some 6]) (all_logs s) /\
    In (ex_root_addr, ex_root, Some 1, OAwait 1 [Some 7]) (all_logs s) /\
    slot_spec ex_root 0 1 6 /\ all_errs s = [] /\ in_scope s = true /\
    n_created (mkAddr (DWorker 1) 0 1) s = 1 /\ n_fin (mkAddr (DWorker 1) 0 1) s = 1 /\ n_started (mkAddr (DWorker 1) 0 1) s = 1.
Proof.
  destruct (steps false (sys0 2) ex_run) as [s|] eqn:E; [|vm_compute in E; discriminate].
  exists s. split; [reflexivity|]. split; [exists ex_run; exact E|].
  vm_compute in E. injection E as <-.
  repeat split; try reflexivity.
  - vm_compute. auto.
  - vm_compute. auto 10.
  - exists (FMap [[Return 5]; [Return 6]]). split; reflexivity.
Qed.

(* the same body under the atomic variant: event list of a coarse run of the real runtime *)
Definition ex_run_atomic : list event :=
  [EClient ex_root 1; EMain 0; EMain 1; EMain 0; ERecv 1; EServer 0 []; EMain 1; EServer 1 [(0,[0]); (1,[1])];
   EServer 1 [(0,[0])]; EMain 1; ERecv 1; ERecv 0; ERecv 0; EMain 1; EMain 0; EServer 1 []; EServer 0 []; EMain 1;
   EMain 0; EMain 1; ERecv 1; EMain 1; EServer 1 []; EMain 0; EMain 1; EMain 0; EServer 0 []; EMain 0; EServer 0 [];
   ERecv 1; EMain 1; EServer 1 []; EMain 1; EMain 1; EServer 1 []].

Example C07_wake_once_nonvacuous :
  (exists s, steps true (sys0 2) ex_run_atomic = Some s /\ in_scope s = true /\ quiescent s /\
     s_client s = [(ex_root_addr, 1)] /\ all_errs s = [] /\ (forall w, In w (s_workers s) -> w_tasks w = [])) /\
  (exists s w, steps true (sys0 2) (firstn 13 ex_run_atomic) = Some s /\ In w (s_workers s) /\ w_oos w = false /\
     length (w_ready w) = 2).
Proof.
  split.
  - destruct (steps true (sys0 2) ex_run_atomic) as [s|] eqn:E; [|vm_compute in E; discriminate].
    exists s. split; [reflexivity|]. vm_compute in E. injection E as <-.
    split; [reflexivity|]. split.
    + split; simpl; intros x [<-|[<-|[]]]; repeat split; reflexivity.
    + split; [reflexivity|]. split; [reflexivity|]. simpl. intros x [<-|[<-|[]]]; reflexivity.
  - destruct (steps true (sys0 2) (firstn 13 ex_run_atomic)) as [s|] eqn:E; [|vm_compute in E; discriminate].
    vm_compute in E. injection E as <-.
    eexists. eexists. split; [reflexivity|]. split; [left; reflexivity|]. split; reflexivity.
Qed.

(* a state of the real run above in which the root sleeps on mailbox 0 (its map of two) *)
Example C07_no_deadlock_partial_nonvacuous :
  exists s w t, steps true (sys0 2) (firstn 14 ex_run_atomic) = Some s /\ In w (s_workers s) /\ w_oos w = false /\
    w_errs w = [] /\ In t (w_tasks w) /\ t_addr t = ex_root_addr /\ w_ready w = [] /\
    exists b, box_get 0 (w_boxes w) = Some b /\ b_dest b = Some ex_root_addr /\ b_ready b = false /\ t_desired t = Some 0.
Proof.
  destruct (steps true (sys0 2) (firstn 14 ex_run_atomic)) as [s|] eqn:E; [|vm_compute in E; discriminate].
  vm_compute in E. injection E as <-.
  eexists. eexists. eexists. split; [reflexivity|]. split; [right; left; reflexivity|]. split; [reflexivity|].
  split; [reflexivity|]. split; [left; reflexivity|]. split; [reflexivity|]. split; [reflexivity|].
  eexists. split; [reflexivity|]. split; [reflexivity|]. split; reflexivity.
Qed.

(* =====================================================================================
   Trees of managers (rt/TreeNet.v, proofs in rt/TreeNetThm.v)
   Vocabulary:
     tree / wf LB UB T          shape of the hierarchy (Leaf n = a node with n workers, Node cs = a node of
                                managers) whose start-up succeeded (rt/Routing.v; ranges = the GENERATED
                                connect_to_managers / spawn_workers arithmetic)
     treach LB UB T s           s is reached from the empty network by any list of events: workers sending
                                RESULT / SUBMIT / SUBMIT_BATCH (TInjRes / TInjBatch), the server scheduling
                                a new task (TRoot), a node handling the OLDEST message of one of its
                                connections (TDeliver; per-channel FIFO, any interleaving, any
                                num_idle_workers, any assignment that partitions the batch), a worker
                                receiving (TWorkerRecv)
     worker_at LB UB T p        id of the worker at path p (None if p is not a worker)
     n_inbox / n_chan / n_client / n_err    received by workers / in flight / stored for a client / raised
   ===================================================================================== *)

(* ---- every RESULT reaches exactly the worker that owns its return address, whatever the tree --------
   (1) no handler of any node ever raises (RuntimeError `Cannot send result to unmanaged worker`,
       IndexError of employees[..] / rtasks[0], ZeroDivisionError);
   (2) a RESULT received by the worker at path p has return_address.worker_id = id of p;
   (3) the same already on the last hop (waiting on that worker's connection);
   (4) worker ids identify workers (two leaves never share an id), so "the worker" is unique. *)
Theorem C07_tree_result_routing : forall LB UB T s, wf LB UB T -> (0 <= LB)%Z -> treach LB UB T s ->
  n_err s = [] /\
  (forall p rid dest by_, In (p, TRes rid dest by_) (n_inbox s) -> worker_at LB UB T p = Some dest) /\
  (forall p rid dest by_ w, In (p, Down, TRes rid dest by_) (n_chan s) -> worker_at LB UB T p = Some w -> w = dest) /\
  (forall p p' w, worker_at LB UB T p = Some w -> worker_at LB UB T p' = Some w -> p = p').
Proof. exact tree_result_routing. Qed.

(* ---- nothing lost, nothing duplicated in the tree: for every task id y and every result id y,
   #(in flight) + #(received by workers) (+ #(stored for a client)) = #(sent).  With C07_tree_drain_bounded:
   once the channels are empty every submitted task sits in exactly as many worker inboxes as it was
   submitted (once), and every result in the inbox of its owner or in the client mailbox. *)
Theorem C07_tree_conservation : forall LB UB T s, wf LB UB T -> (0 <= LB)%Z -> treach LB UB T s ->
  (forall y, cnt y (chan_tids (n_chan s)) + cnt y (inbox_tids (n_inbox s)) = cnt y (n_tinj s)) /\
  (forall y, cnt y (chan_rids (n_chan s)) + cnt y (inbox_rids (n_inbox s)) + cnt y (n_client s) = cnt y (n_rinj s)).
Proof. exact tree_conservation. Qed.

(* ---- no message circulates: every hop strictly decreases `measure` (hops still ahead x tasks carried),
   so a run segment without new submissions has at most `measure` events, under ANY scheduling of the
   nodes (no fairness assumption is needed for the bound; that enabled hops are eventually taken is the
   only liveness assumption on the network). *)
Theorem C07_tree_hops_decrease : forall LB UB T s e s', wf LB UB T -> (0 <= LB)%Z -> treach LB UB T s ->
  tstep LB UB T s e = Some s' -> is_inject e = false -> measure T s' < measure T s.
Proof. exact tree_hops_decrease. Qed.

Theorem C07_tree_drain_bounded : forall LB UB T, wf LB UB T -> (0 <= LB)%Z -> forall es s s', treach LB UB T s ->
  tsteps LB UB T s es = Some s' -> forallb (fun e => negb (is_inject e)) es = true ->
  length es + measure T s' <= measure T s.
Proof. exact tree_drain_bounded. Qed.

(* ---- progress of the routing layer: in a hierarchy where every node has at least one employee
   (emp_pos), while any message is in flight some hop (a node handling a message, or a worker receiving)
   is enabled -- with C07_tree_hops_decrease: the tree cannot hold a RESULT or a task forever, no state
   with a stuck message is reachable.  Fairness assumed: none beyond "an enabled hop is eventually taken"
   (every node keeps reading its connections; every worker keeps reading its connection). *)
Theorem C07_tree_progress : forall LB UB T s, wf LB UB T -> (0 <= LB)%Z -> emp_pos T -> treach LB UB T s ->
  n_chan s <> [] -> exists e s', is_inject e = false /\ tstep LB UB T s e = Some s'.
Proof. exact tree_enabled. Qed.

(* ---- non-vacuity: server -> [manager -> [manager(2 workers); manager(1 worker)]; manager(2 workers)].
   A task goes down three levels; its body submits a batch of 3 that is split between the local manager
   and (two levels up, down again) the other top-level manager; the result of one of them travels
   up two levels and down three to the worker that owns the return address. *)
Definition ex_tree3 : tree := Node [Node [Leaf 2; Leaf 1]; Leaf 2].
Ltac wf_tac :=
  first [ apply wf_leaf; vm_compute; reflexivity
        | apply wf_node; [discriminate | vm_compute; reflexivity |
            let i := fresh "i" in let c := fresh "c" in let H := fresh "H" in
            intros i c H;
            repeat (destruct i as [|i]; simpl in H; [injection H as <-; wf_tac|]);
            destruct i; discriminate ] ].
Definition ex_tree_run : list tev :=
  [TRoot [1] [[1]; []]; TDeliver [0] Down 0 [[1]; []]; TDeliver [0; 0] Down 0 [[]; [1]];
   TWorkerRecv [0; 0; 1];
   TInjBatch [0; 0; 1] false [2; 3; 4];
   TDeliver [0; 0; 1] Up 1 [[2]; []];
   TDeliver [0; 0] Up 0 [];
   TDeliver [0] Up 0 [[]; [3; 4]];
   TDeliver [1] Down 0 [[4]; [3]];
   TWorkerRecv [1; 0];
   TInjRes [1; 0] 7 (Some [0; 0; 1]);
   TDeliver [1; 0] Up 0 [];
   TDeliver [1] Up 0 [];
   TDeliver [0] Down 0 [];
   TDeliver [0; 0] Down 0 [];
   TWorkerRecv [0; 0; 1]].

Example C07_tree_nonvacuous :
  wf server_lower_id_bound server_upper_id_bound ex_tree3 /\ (0 <= server_lower_id_bound)%Z /\ emp_pos ex_tree3 /\
  exists s, tsteps server_lower_id_bound server_upper_id_bound ex_tree3 net0 ex_tree_run = Some s /\
    treach server_lower_id_bound server_upper_id_bound ex_tree3 s /\
    worker_at server_lower_id_bound server_upper_id_bound ex_tree3 [0; 0; 1] = Some 1%Z /\
    worker_at server_lower_id_bound server_upper_id_bound ex_tree3 [1; 0] = Some 536870912%Z /\
    n_inbox s = [([0; 0; 1], TBatch false [1]); ([1; 0], TBatch false [4]); ([0; 0; 1], TRes 7 1%Z 536870912%Z)] /\
    n_chan s = [([0; 0; 0], Down, TBatch false [2]); ([1; 1], Down, TBatch false [3])] /\
    n_err s = [] /\ n_tinj s = [1; 2; 3; 4] /\
    option_map (measure ex_tree3)
      (tsteps server_lower_id_bound server_upper_id_bound ex_tree3 net0 (firstn 12 ex_tree_run)) = Some 8.
Proof.
  split; [wf_tac|]. split; [vm_compute; discriminate|]. split; [simpl; repeat split; auto|].
  destruct (tsteps server_lower_id_bound server_upper_id_bound ex_tree3 net0 ex_tree_run) as [s|] eqn:E;
    [|vm_compute in E; discriminate].
  exists s. split; [reflexivity|]. split; [exists ex_tree_run; exact E|].
  vm_compute in E. injection E as <-. repeat split; vm_compute; reflexivity.
Qed.
