(* C20 - coupling-graph and qudit-permutation utilities match their definitions.
   Statements only, each closed by `exact <lemma>`; the models are map/Graph.v,
   map/GraphFloyd.v, map/GraphExt.v, map/GraphQpu.v, map/Kron.v (no proofs there) and the proofs are in
   map/Graph*Thm.v, map/Kron*Thm.v.  Hypotheses used throughout (map/GraphThm.v):
     wf g        every neighbour label is < length g
     sym g       adjacency lists are symmetric (undirected graph)
     loopfree g  no vertex is its own neighbour
     nodup_adj g neighbour "sets" have no repeated element
   C20_ctor_ok shows that every graph the CouplingGraph constructor accepts satisfies all
   four, so they are not extra assumptions about the code. *)
From Coq Require Import List Arith ZArith Sorted Lia.
Import ListNotations.
From BQ Require Import map.Graph map.GraphThm map.GraphPermThm map.GraphFloyd map.GraphFloydThm
  map.GraphFcwThm map.GraphSubThm map.GraphSptThm map.GraphExt map.GraphCtorThm map.GraphIsoThm
  map.GraphEmbedThm map.GraphMiscThm map.GraphQpu map.GraphQpuThm map.Kron map.KronThm map.KronEmbedThm map.KronPermGenThm.

(* ==== CouplingGraph.is_fully_connected ================================================
   Answers for every non-empty well-formed graph, and answers `true` exactly when every
   vertex is reachable from vertex 0 (textbook connectivity of an undirected graph). *)
Theorem C20_connected_iff : forall g,
  wf g -> length g <> 0 ->
  exists b, is_fully_connected g = Some b /\ (b = true <-> allreach g).
Proof. exact is_fully_connected_spec. Qed.

Theorem C20_connected_empty_raises : is_fully_connected [] = None.
Proof. exact is_fully_connected_empty. Qed.

Example C20_connected_nonvacuous :
  wf [[1];[0;2];[1]] /\ is_fully_connected [[1];[0;2];[1]] = Some true
  /\ is_fully_connected [[1];[0];[]] = Some false.
Proof. split; [|split; reflexivity].
  intros q x. destruct q as [|[|[|q]]]; simpl; intuition (subst; auto with arith); destruct q; contradiction. Qed.

(* ==== PermutationMatrix.from_qudit_location ===========================================
   For every number of qudits and every duplicate-free in-range location: the swap loop
   (which reads `current_perm` live, as Python's enumerate does) ends with the identity
   arrangement; the product of the applied swaps - applied in reverse recording order
   because UnitaryBuilder.apply_left pre-multiplies in circuit order - carries the content
   of wire location[i] to position i, and more generally is the inverse of the completed
   arrangement (location followed by the missing qudits in ascending order); every swap is
   a genuine in-range transposition.  The statement is about wires, hence any radix. *)
Theorem C20_perm_location : forall n loc,
  NoDup loc -> (forall x, In x loc -> x < n) ->
  let cur := fst (perm_loop n loc) in
  let swaps := snd (perm_loop n loc) in
  cur = seq 0 n
  /\ (forall i, i < length loc -> push_wire swaps (nth i loc 0) = i)
  /\ (forall i, i < n -> push_wire swaps (nth i (complete_perm n loc) 0) = i)
  /\ (forall s, In s swaps -> fst s < snd s /\ snd s < n).
Proof. exact perm_location. Qed.

(* the built MATRIX - identity builder, apply_left(swap, (index, pos)) per recorded swap,
   with the mixed-radix index arithmetic of Kron.v - is the documented permutation matrix
   (column with digits d has its 1 in the row whose digit i is d[full[i]], full = completed
   arrangement), for EVERY number of qudits and EVERY radix *)
Theorem C20_perm_location_matrix : forall n radix loc,
  0 < radix -> NoDup loc -> (forall x, In x loc -> x < n) ->
  from_qudit_location n radix loc = perm_matrix n radix (complete_perm n loc).
Proof. exact from_qudit_location_matrix. Qed.

(* the mutant apply_right builds a different matrix (the inverse permutation) *)
Theorem C20_perm_location_apply_right_refuted :
  from_qudit_location_right 3 2 [1; 2; 0] <> perm_matrix 3 2 (complete_perm 3 [1; 2; 0]).
Proof. exact apply_right_mutant_differs. Qed.

Example C20_perm_location_nonvacuous :
  NoDup [2; 0] /\ (forall x, In x [2; 0] -> x < 4)
  /\ perm_loop 4 [2; 0] = ([0; 1; 2; 3], [(0, 1); (1, 2)])
  /\ map (push_wire (snd (perm_loop 4 [2; 0]))) [2; 0; 1; 3] = [0; 1; 2; 3].
Proof. split; [repeat constructor; simpl; intuition congruence|].
  split; [simpl; intros x [<-|[<-|[]]]; auto with arith|]. split; reflexivity. Qed.

(* ==== CouplingGraph.all_pairs_shortest_path (Floyd-Warshall, in place) ==================
   `shape n D0`: an n x n matrix of weights (None = inf, Some w = natural weight; the
   harness uses integer weights so that float addition is exact).  `wt D0 i l j` is the
   weight of the walk i -> l_1 -> ... -> l_m -> j (m >= 0, i.e. at least one edge);
   `is_min_walk D0 k i j v`: v is the minimum of wt over all such walks whose intermediate
   vertices are < k (None when there is none).
   C20_floyd_invariant is the classical invariant for the k-loop of the code AS WRITTEN
   (k outer, then i, then j, each entry overwritten in place); C20_floyd the result;
   C20_floyd_inplace_is_textbook: the in-place sweep equals the textbook recurrence that
   computes D_{k+1} from the old D_k.  Diagonal convention of the code, stated exactly:
   there is NO zero diagonal - D[i][i] is the least weight of a closed walk with >= 1 edge
   through i (C20_floyd with i = j); for a unit-weight undirected loop-free graph that is
   2 when i has a neighbour and inf otherwise (C20_floyd_diagonal).  C20_floyd_applies:
   the matrix built by the constructor (default / remote / override weights) has the
   required shape. *)
Theorem C20_floyd_invariant : forall n D0 k, shape n D0 -> k <= n -> forall i j, i < n -> j < n ->
  is_min_walk D0 k i j (mget (fold_left (fw_k n) (seq 0 k) D0) i j).
Proof. exact floyd_prefix_spec. Qed.

Theorem C20_floyd : forall n D0, shape n D0 -> forall i j, i < n -> j < n ->
  is_min_walk D0 n i j (mget (floyd n D0) i j).
Proof. exact floyd_spec. Qed.

Theorem C20_floyd_all_walks : forall n D0, shape n D0 -> forall i j, i < n -> j < n ->
  forall l, wle (mget (floyd n D0) i j) (wt D0 i l j).
Proof. exact floyd_all_walks. Qed.

Theorem C20_floyd_inplace_is_textbook : forall n D0, shape n D0 -> floyd n D0 = floyd_ref n D0.
Proof. exact floyd_inplace_eq_ref. Qed.

Theorem C20_floyd_shape : forall n D0, shape n D0 -> shape n (floyd n D0).
Proof. exact floyd_shape. Qed.

Theorem C20_floyd_applies : forall n es remote dw rw ov, shape n (mk_mat n es remote dw rw ov).
Proof. exact mk_mat_shape. Qed.

Theorem C20_floyd_diagonal : forall g i, wf g -> sym g -> loopfree g -> i < length g ->
  mget (floyd (length g) (unit_mat g)) i i = (match nbrs g i with [] => None | _ => Some 2 end).
Proof. exact floyd_diag_unit. Qed.

(* the mutant loop order i, j, k is not Floyd-Warshall (model-level witness; the harness
   finds the same kind of witness on a mutated implementation) *)
Theorem C20_floyd_ijk_refuted : exists D0, shape 4 D0 /\ fw_ijk 4 D0 <> floyd 4 D0.
Proof. exact fw_ijk_wrong. Qed.

Example C20_floyd_nonvacuous :
  shape 3 (mk_mat 3 [(0,1);(1,2);(0,2)] [(0,2)] 1 100 [((1,2),5)])
  /\ floyd 3 (mk_mat 3 [(0,1);(1,2);(0,2)] [(0,2)] 1 100 [((1,2),5)])
     = [[Some 2; Some 1; Some 6]; [Some 1; Some 2; Some 5]; [Some 6; Some 5; Some 10]].
Proof. split; [split; [reflexivity|repeat constructor]|reflexivity]. Qed.

(* ==== CouplingGraph.get_shortest_path_tree (O(n^2) Dijkstra with unit steps) =============
   For every well-formed graph (directed adjacency lists suffice) and in-range source:
   either n paths are returned, path t being a path of g from the source to t whose hop
   count is minimal among ALL paths from the source to t (= the BFS distance); or the code
   raises RuntimeError (None) and then some vertex is unreachable.  "Some" is exactly
   "every vertex reachable".  An out-of-range source raises (IndexError). *)
Theorem C20_spt : forall g src, wf g -> src < length g ->
  match shortest_path_tree g src with
  | Some paths =>
      length paths = length g /\
      forall t, t < length g ->
        let p := nth t paths [] in
        path_from_to g src t p /\ (forall q, path_from_to g src t q -> hops p <= hops q)
  | None => exists t, t < length g /\ ~ reach g src t
  end.
Proof. exact spt_spec. Qed.

Theorem C20_spt_some_iff_reachable : forall g src, wf g -> src < length g ->
  ((exists paths, shortest_path_tree g src = Some paths) <-> forall t, t < length g -> reach g src t).
Proof. exact spt_some_iff. Qed.

Theorem C20_spt_source_out_of_range : forall g src, length g <= src -> shortest_path_tree g src = None.
Proof. exact spt_out_of_range. Qed.

Example C20_spt_nonvacuous :
  shortest_path_tree [[1;2];[0;3];[0;3];[1;2]] 0 = Some [[0];[0;1];[0;2];[0;1;3]]
  /\ shortest_path_tree [[1];[0];[]] 0 = None
  /\ path_from_to [[1;2];[0;3];[0;3];[1;2]] 0 3 [0;1;3].
Proof. split; [reflexivity|split; [reflexivity|]]. repeat split; simpl; auto. Qed.

(* ==== CouplingGraph.is_fully_connected_without ===========================================
   In contract (>= 2 vertices, qudit in range): always answers, and `true` iff every other
   vertex is reachable from the start vertex (0, or 1 when qudit = 0) avoiding the qudit,
   i.e. iff g - qudit is connected.  Error and out-of-contract cases follow. *)
Theorem C20_connected_without_iff : forall g q,
  wf g -> 2 <= length g -> q < length g ->
  exists b, is_fully_connected_without g q = Some b /\ (b = true <-> allreach_wo g q).
Proof. exact is_fully_connected_without_spec. Qed.

(* IndexError: the start vertex does not exist (empty graph; one vertex and qudit 0) *)
Theorem C20_connected_without_raises : forall g q,
  length g <= start_wo q -> is_fully_connected_without g q = None.
Proof. exact is_fully_connected_without_raises. Qed.

Theorem C20_connected_without_single : forall q, q <> 0 -> is_fully_connected_without [[]] q = Some false.
Proof. exact is_fully_connected_without_single. Qed.

(* qudit >= num_qudits is not rejected and the answer is not connectivity: two connected
   graphs, two answers *)
Theorem C20_connected_without_out_of_range :
  is_fully_connected_without [[1];[0;2];[1]] 5 = Some true /\
  is_fully_connected_without [[1;2;3];[0];[0];[0]] 7 = Some false.
Proof. exact is_fully_connected_without_out_of_range. Qed.

Example C20_connected_without_nonvacuous :
  is_fully_connected_without [[1];[0;2];[1]] 1 = Some false      (* removing the middle of a path *)
  /\ is_fully_connected_without [[1];[0;2];[1]] 0 = Some true
  /\ is_fully_connected_without [[1;2];[0;2];[0;1]] 1 = Some true.
Proof. repeat split; reflexivity. Qed.

(* ==== CouplingGraph.get_subgraphs_of_size / _location_search ==============================
   Exactly the connected k-subsets (each as a strictly increasing list, each once):
   soundness AND completeness, for every undirected well-formed graph and every k. *)
Theorem C20_subgraphs_complete_sound : forall g k res,
  wf g -> sym g -> subgraphs_of_size g k = Some res ->
  forall l, In l res <-> conn_k_subset g k l.
Proof. exact subgraphs_spec. Qed.

Theorem C20_subgraphs_nodup : forall g k res, subgraphs_of_size g k = Some res -> NoDup res.
Proof. exact subgraphs_nodup. Qed.

Theorem C20_subgraphs_errors : forall g k,
  subgraphs_of_size g k = None <-> (k = 0 \/ length g < k).       (* ValueError *)
Proof. exact subgraphs_error. Qed.

Example C20_subgraphs_nonvacuous :
  subgraphs_of_size [[1];[0;2];[1];[]] 2 = Some [[1;2];[0;1]]
  /\ subgraphs_of_size [[1];[0;2];[1];[]] 3 = Some [[0;1;2]]
  /\ subgraphs_of_size [[1];[0;2];[1];[]] 5 = None.
Proof. repeat split; reflexivity. Qed.

(* ==== CouplingGraph.__init__ and the topology constructors =================================
   Whatever the constructor accepts is a well-formed undirected loop-free graph whose
   adjacency is exactly the given edge set; its error cases are characterised. *)
Theorem C20_ctor_ok : forall es on g, mk_graph es on = Ok g ->
  wf g /\ sym g /\ loopfree g /\ nodup_adj g
  /\ length g = (match on with Some n => n | None => infer_n es end)
  /\ forall x y, In x (nbrs g y) <-> (In (x, y) es \/ In (y, x) es).
Proof. exact mk_graph_ok. Qed.

Theorem C20_ctor_type_error : forall es on, mk_graph es on = TypeError <-> exists a, In (a, a) es.
Proof. exact mk_graph_type_error. Qed.

Theorem C20_ctor_value_error : forall es on, mk_graph es on = ValueError <->
  ((forall a, ~ In (a, a) es) /\ exists n, on = Some n /\ n < infer_n es).
Proof. exact mk_graph_value_error. Qed.

(* linear / ring / star / all_to_all on n >= 2 vertices, grid on r x c >= 2 vertices: the
   result has exactly n (r*c) vertices and the textbook adjacency.  grid: vertex (row i,
   column j) is i*c + j, with an edge to (i, j+1) and to (i+1, j) - no wrap at the row end. *)
Theorem C20_topology_linear : forall n, 2 <= n -> exists g, linear n = Ok g /\ length g = n /\
  forall x y, In x (nbrs g y) <-> ((x = S y \/ y = S x) /\ x < n /\ y < n).
Proof. exact linear_graph. Qed.

Theorem C20_topology_ring : forall n, 2 <= n -> exists g, ring n = Ok g /\ length g = n /\
  forall x y, In x (nbrs g y) <->
    (((x = S y \/ y = S x) /\ x < n /\ y < n) \/ (x = 0 /\ y = n - 1) \/ (y = 0 /\ x = n - 1)).
Proof. exact ring_graph. Qed.

Theorem C20_topology_star : forall n, 2 <= n -> exists g, star n = Ok g /\ length g = n /\
  forall x y, In x (nbrs g y) <-> ((x = 0 /\ 1 <= y /\ y < n) \/ (y = 0 /\ 1 <= x /\ x < n)).
Proof. exact star_graph. Qed.

Theorem C20_topology_all_to_all : forall n, 2 <= n -> exists g, all_to_all n = Ok g /\ length g = n /\
  forall x y, In x (nbrs g y) <-> (x <> y /\ x < n /\ y < n).
Proof. exact all_to_all_graph. Qed.

Theorem C20_topology_grid : forall r c, 2 <= r * c -> exists g, grid r c = Ok g /\ length g = r * c /\
  forall x y, In x (nbrs g y) <-> (In (x, y) (grid_edges r c) \/ In (y, x) (grid_edges r c)).
Proof. exact grid_graph. Qed.

Theorem C20_topology_grid_edges : forall r c a b, In (a, b) (grid_edges r c) <->
  exists i j, i < r /\ j < c /\ a = i * c + j /\
              ((S j < c /\ b = i * c + S j) \/ (S i < r /\ b = S i * c + j)).
Proof. exact grid_edges_spec. Qed.

(* corner cases as the code has them: the size is inferred from the largest label, so
   n = 0 and n = 1 both give ONE isolated vertex; ring 1 asks for the self-loop (0,0) and
   raises TypeError; ring 2 is the single edge *)
Theorem C20_topology_small :
  linear 0 = Ok [[]] /\ linear 1 = Ok [[]] /\ star 0 = Ok [[]] /\ star 1 = Ok [[]] /\
  all_to_all 0 = Ok [[]] /\ all_to_all 1 = Ok [[]] /\ ring 1 = TypeError /\ grid 1 1 = Ok [[]] /\
  ring 2 = Ok [[1]; [0]] /\ linear 2 = Ok [[1]; [0]].
Proof. exact small_topologies. Qed.

Example C20_topology_nonvacuous :
  ring 4 = Ok [[3; 1]; [2; 0]; [3; 1]; [0; 2]] /\ grid 2 2 = Ok [[2; 1]; [3; 0]; [3; 0]; [2; 1]]
  /\ mk_graph [(0, 1); (1, 1)] None = TypeError /\ mk_graph [(0, 3)] (Some 2) = ValueError.
Proof. repeat split; reflexivity. Qed.

(* ==== CouplingGraph.get_subgraph / get_induced_subgraph =======================================
   For a duplicate-free, non-empty, in-range location and a renumbering that is a bijection
   onto [0, len(location)) (the default one always is): the call succeeds and the
   renumbering is an isomorphism from the sub-graph induced by the location onto the
   returned graph (every returned edge comes from an induced edge and vice versa).
   Renumberings need not be order preserving.  Every input the code rejects is rejected. *)
Theorem C20_subgraph_iso : forall g loc ren,
  wf g -> sym g -> loopfree g -> NoDup loc -> loc <> [] -> (forall q, In q loc -> q < length g) ->
  bij_ren loc (ren_of loc ren) ->
  exists es, get_subgraph g loc ren = Some es /\
    (forall u v a b, In u loc -> In v loc ->
       assoc u (ren_of loc ren) = Some a -> assoc v (ren_of loc ren) = Some b ->
       (In v (nbrs g u) <-> In (norm_edge (a, b)) es)) /\
    (forall e, In e es -> fst e < snd e /\ snd e < length loc /\
       exists u v, In u loc /\ In v loc /\ In v (nbrs g u) /\
                   assoc u (ren_of loc ren) = Some (fst e) /\ assoc v (ren_of loc ren) = Some (snd e)).
Proof. exact get_subgraph_iso. Qed.

Theorem C20_subgraph_default_renumbering : forall loc, NoDup loc -> bij_ren loc (ren_of loc None).
Proof. exact default_ren_bij. Qed.

Theorem C20_subgraph_rejects : forall g loc ren,
  (~ NoDup loc \/ (exists q, In q loc /\ length g <= q) \/ loc = [] \/
   length (ren_of loc ren) <> length loc \/ ~ NoDup (map fst (ren_of loc ren)) \/
   (exists k, In k (map fst (ren_of loc ren)) /\ ~ In k loc)) ->
  get_subgraph g loc ren = None.
Proof. exact get_subgraph_rejects. Qed.

(* the renumbering values must be exactly a permutation of [0, len(location)): a repeated
   or out-of-range value is rejected (ValueError) - was defect C20-F5, fixed in /repo edc1b80 *)
Theorem C20_subgraph_rejects_non_permutation : forall g loc ren,
  (~ NoDup (map snd (ren_of loc ren)) \/ (exists v, In v (map snd (ren_of loc ren)) /\ length loc <= v)) ->
  get_subgraph g loc ren = None.
Proof. exact get_subgraph_rejects_non_permutation. Qed.

(* conversely, success means: valid location and a bijective renumbering - so C20_subgraph_iso
   covers EVERY successful call *)
Theorem C20_subgraph_success_means_bijection : forall g loc ren es, get_subgraph g loc ren = Some es ->
  NoDup loc /\ loc <> [] /\ (forall q, In q loc -> q < length g) /\ bij_ren loc (ren_of loc ren).
Proof. exact get_subgraph_Some_bij. Qed.

Theorem C20_induced_subgraph : forall g loc es, sym g -> induced_subgraph g loc = Ok es ->
  NoDup loc /\ 2 <= length loc /\
  forall a b, In (a, b) es <-> (a < b /\ In a loc /\ In b loc /\ In b (nbrs g a)).
Proof. exact induced_subgraph_spec. Qed.

Theorem C20_induced_subgraph_errors : forall g loc,
  (~ NoDup loc \/ length loc < 2) <-> induced_subgraph g loc = ValueError.
Proof. exact induced_subgraph_errors. Qed.

Example C20_subgraph_nonvacuous :
  bij_ren [3; 1; 2] [(1, 2); (2, 0); (3, 1)]
  /\ get_subgraph [[1]; [0; 2]; [1; 3]; [2]] [3; 1; 2] (Some [(1, 2); (2, 0); (3, 1)]) = Some [(0, 1); (0, 2); (0, 2); (0, 1)]
  /\ get_subgraph [[1]; [0; 2]; [1; 3]; [2]] [3; 1; 2] None = Some [(0, 2); (1, 2); (1, 2); (0, 2)].
Proof. split; [|split; reflexivity]. unfold bij_ren. simpl.
  repeat split; try (repeat constructor; simpl; intuition congruence); intros k H; intuition (subst; auto with arith). Qed.

(* ==== CouplingGraph.is_embedded_in ================================================================
   The boolean (size test, degree pre-filter, brute force over it.permutations) is `true`
   exactly when an injective edge-preserving vertex map exists. *)
Theorem C20_embedded_iff : forall g h,
  wf g -> sym g -> loopfree g -> nodup_adj g -> sym h -> nodup_adj h ->
  (is_embedded_in g h = true <-> exists f, embedding g h f).
Proof. exact is_embedded_in_spec. Qed.

Example C20_embedded_nonvacuous :
  is_embedded_in [[1]; [0; 2]; [1]] [[1; 3]; [0; 2]; [1; 3]; [2; 0]] = true      (* path in a 4-ring *)
  /\ is_embedded_in [[1; 2]; [0; 2]; [0; 1]] [[1; 3]; [0; 2]; [1; 3]; [2; 0]] = false  (* no triangle *)
  /\ embedding [[1]; [0; 2]; [1]] [[1; 3]; [0; 2]; [1; 3]; [2; 0]] [0; 1; 2].
Proof. split; [reflexivity|split; [reflexivity|]]. unfold embedding. simpl.
  split; [reflexivity|]. split; [repeat constructor; simpl; intuition congruence|].
  split; [intros x H; intuition (subst; auto with arith)|].
  intros a b Ha Hb. destruct a as [|[|[|a]]]; simpl in Hb; intuition (subst; simpl; auto); lia. Qed.

(* ==== CouplingGraph.maximal_matching ===================================================================
   For EVERY iteration order of the edge set (set order, shuffled or not): only admissible
   non-loop edges, pairwise vertex-disjoint, no repetition, and maximal. *)
Theorem C20_maximal_matching : forall order ignore,
  let m := maximal_matching order ignore in
  (forall e, In e m -> In e (admissible order ignore) /\ fst e <> snd e) /\
  NoDup m /\ (forall e f, In e m -> In f m -> e <> f -> ~ touches e f) /\
  (forall e, In e (admissible order ignore) -> fst e <> snd e -> exists f, In f m /\ touches e f).
Proof. exact maximal_matching_spec. Qed.

Example C20_maximal_matching_nonvacuous :
  maximal_matching [(0, 1); (1, 2); (2, 3); (3, 4)] [(2, 1)] = [(2, 3); (0, 1)].
Proof. reflexivity. Qed.

(* ==== MachineModel(num_qudits, edge list) / MachineModel.get_locations ===========================
   The constructor accepts exactly: num_qudits > 0, every label < num_qudits, no pair (a, a);
   the stored coupling graph then has num_qudits vertices (trailing qudits without an edge
   included - was defect C20-F2) and the adjacency of the edge list.  get_locations(k) returns
   exactly the connected k-subsets of that graph, each once, as strictly increasing tuples;
   it raises ValueError exactly for k = 0 or k > num_qudits. *)
Theorem C20_machine_ctor : forall n es g, mm_graph n es = Ok g ->
  0 < n /\ edges_ok n es /\ (forall a, ~ In (a, a) es) /\
  wf g /\ sym g /\ loopfree g /\ nodup_adj g /\ length g = n /\
  forall x y, In x (nbrs g y) <-> (In (x, y) es \/ In (y, x) es).
Proof. exact mm_graph_ok. Qed.

Theorem C20_machine_ctor_accepts : forall n es, 0 < n -> edges_ok n es -> (forall a, ~ In (a, a) es) ->
  exists g, mm_graph n es = Ok g.
Proof. exact mm_graph_accepts. Qed.

Theorem C20_machine_ctor_errors : forall n es,
  (mm_graph n es = ValueError <-> n = 0) /\
  (mm_graph n es = TypeError <-> (n <> 0 /\ (~ edges_ok n es \/ exists a, In (a, a) es))).
Proof. exact mm_graph_errors. Qed.

Theorem C20_machine_get_locations : forall n es k res, mm_get_locations n es k = Ok res ->
  exists g, mm_graph n es = Ok g /\ length g = n /\
    (forall x y, In x (nbrs g y) <-> (In (x, y) es \/ In (y, x) es)) /\
    NoDup res /\ forall l, In l res <-> conn_k_subset g k l.
Proof. exact mm_get_locations_spec. Qed.

Theorem C20_machine_get_locations_value_error : forall n es k g, mm_graph n es = Ok g ->
  (mm_get_locations n es k = ValueError <-> (k = 0 \/ n < k)).
Proof. exact mm_get_locations_value_error. Qed.

Example C20_machine_nonvacuous :
  mm_get_locations 5 [(0, 1); (1, 2)] 2 = Ok [[1; 2]; [0; 1]]
  /\ mm_get_locations 5 [(0, 1); (1, 2)] 1 = Ok [[4]; [3]; [2]; [1]; [0]]     (* isolated qudits 3, 4 kept *)
  /\ mm_get_locations 2 [(0, 2)] 1 = TypeError /\ mm_get_locations 0 [] 1 = ValueError
  /\ mm_get_locations 2 [(0, 1)] 3 = ValueError.
Proof. repeat split; reflexivity. Qed.

(* ==== QPU maps: get_qpu_to_qudit_map / get_qudit_to_qpu_map ======================================
   `local_graph g remote` is g with the remote edges deleted (C20_qpu_local_graph).  For every
   well-formed undirected graph and EVERY remote-edge list the search (frontier set, pop, add
   non-remote unseen neighbours) terminates, and the QPUs it returns partition the qudits,
   each QPU being exactly a connected component of the local graph.
   get_qudit_to_qpu_map as written returns dict VALUES in insertion order, i.e. QPU by QPU:
   C20_qudit_to_qpu_refuted is a reachable counterexample (QPUs {0,2}, {1,3}: the code claims
   qudit 1 is on QPU 0) - known finding C20-F8, reproduced on /repo by the harness;
   C20_qudit_to_qpu_contiguous: the code agrees with the repaired function when the QPUs are
   contiguous label blocks in ascending order (what tests/qis/test_graph.py exercises);
   C20_qudit_to_qpu_fixed: the repaired function (fixes/C20-F8.patch) is right for every
   partition.  The full statement for the code as written is kept below as a Definition. *)
Theorem C20_qpu_local_graph : forall g remote x y,
  In y (nbrs (local_graph g remote) x) <->
  (In y (nbrs g x) /\ ~ In (x, y) remote /\ ~ In (y, x) remote).
Proof. exact local_graph_spec. Qed.

Theorem C20_qpu_to_qudit : forall g remote, wf g -> sym g ->
  exists qpus, qpu_to_qudit g remote = Some qpus /\
    NoDup (concat qpus) /\ (forall v, In v (concat qpus) <-> v < length g) /\
    forall Q, In Q qpus -> exists r, In r Q /\ forall v, In v Q <-> reach (local_graph g remote) r v.
Proof. exact qpu_to_qudit_spec. Qed.

Definition C20_qudit_to_qpu_full : Prop := forall g remote qpus, wf g -> sym g ->
  qpu_to_qudit g remote = Some qpus ->
  forall q, q < length g -> In q (nth (nth q (qudit_to_qpu_coded qpus) 0) qpus []).

Theorem C20_qudit_to_qpu_refuted :
  exists g remote qpus, wf g /\ sym g /\ qpu_to_qudit g remote = Some qpus /\
    exists q, q < length g /\ ~ In q (nth (nth q (qudit_to_qpu_coded qpus) 0) qpus []).
Proof. exact qudit_to_qpu_coded_refuted. Qed.

Theorem C20_qudit_to_qpu_contiguous : forall n qpus, concat qpus = seq 0 n ->
  qudit_to_qpu_coded qpus = qudit_to_qpu_fixed n qpus.
Proof. exact qudit_to_qpu_coded_contiguous. Qed.

Theorem C20_qudit_to_qpu_fixed : forall n qpus,
  NoDup (concat qpus) -> (forall v, In v (concat qpus) <-> v < n) ->
  length (qudit_to_qpu_fixed n qpus) = n /\
  forall q, q < n -> let i := nth q (qudit_to_qpu_fixed n qpus) 0 in
    i < length qpus /\ In q (nth i qpus []).
Proof. exact qudit_to_qpu_fixed_spec. Qed.

Example C20_qpu_nonvacuous :
  qpu_to_qudit [[1]; [0; 2]; [1; 3]; [2]] [(1, 2)] = Some [[0; 1]; [2; 3]]
  /\ qudit_to_qpu_coded [[0; 1]; [2; 3]] = [0; 0; 1; 1]
  /\ qpu_to_qudit [[2; 1]; [3; 0]; [0]; [1]] [(0, 1)] = Some [[0; 2]; [1; 3]]
  /\ qudit_to_qpu_coded [[0; 2]; [1; 3]] = [0; 0; 1; 1]              (* wrong: C20-F8 *)
  /\ qudit_to_qpu_fixed 4 [[0; 2]; [1; 3]] = [0; 1; 0; 1]
  /\ NoDup (concat [[0; 2]; [1; 3]]).
Proof. repeat split; try reflexivity. repeat constructor; simpl; intuition congruence. Qed.

(* ==== degrees, is_linear ==================================================================================== *)
Theorem C20_degrees : forall g i, length (degrees g) = length g /\ nth i (degrees g) 0 = length (nbrs g i).
Proof. exact degrees_spec. Qed.

(* is_linear: a path on all vertices - degree profile of a path AND connected (the
   connectivity clause was missing before /repo 4d72250, defect C20-F6) *)
Theorem C20_is_linear_iff_path : forall g, wf g ->
  (is_linear g = true <->
   (2 <= length g /\ (forall d, In d (degrees g) -> 1 <= d <= 2)
    /\ length (filter (Nat.eqb 1) (degrees g)) = 2 /\ allreach g)).
Proof. exact is_linear_spec. Qed.

Example C20_is_linear_nonvacuous :
  is_linear [[1]; [0; 2]; [1; 3]; [2]] = true
  /\ is_linear [[1]; [0]; [3; 4]; [2; 4]; [2; 3]] = false       (* old F6 witness: path + triangle *)
  /\ get_subgraph [[2]; []; [0]] [0; 1; 2] (Some [(0, 0); (1, 0); (2, 2)]) = None.   (* old F5 witness *)
Proof. repeat split; reflexivity. Qed.

(* ==== UnitaryMatrix.otimes / ipower, UnitaryBuilder.apply_right / apply_left =====================================
   Exact integer matrices (lists of rows over Z).  Index arithmetic of the Kronecker
   product: entry (i*p+k, j*q+l) of A (x) B is A[i][j] * B[k][l], and every entry has that
   form; otimes is the left-nested product; ipower is the iterated product (of the
   transpose for negative exponents).  The operator applied by apply_right / apply_left,
   defined entry-wise with mixed-radix indices (U on the location's digits, Kronecker
   delta on the others), IS the explicit Kronecker product U (x) I resp. I (x) U when the
   location is a prefix resp. suffix of the qudits (any radixes), and P^T (U (x) I) P for a
   general (scattered, permuted) location. *)
Theorem C20_kron : forall m n p q A B, zshape m n A -> zshape p q B ->
  forall i j k l, i < m -> j < n -> k < p -> l < q ->
  zget (kron A B) (i * p + k) (j * q + l) = (zget A i j * zget B k l)%Z.
Proof. exact kron_entry. Qed.

Theorem C20_kron_divmod : forall m n p q A B, zshape m n A -> zshape p q B -> 0 < p -> 0 < q ->
  forall r c, r < m * p -> c < n * q ->
  zget (kron A B) r c = (zget A (r / p) (c / q) * zget B (r mod p) (c mod q))%Z.
Proof. exact kron_entry_divmod. Qed.

Theorem C20_kron_shape : forall m n p q A B, zshape m n A -> zshape p q B -> zshape (m * p) (n * q) (kron A B).
Proof. exact kron_shape. Qed.

Theorem C20_kron_assoc : forall m n p q r s A B C, zshape m n A -> zshape p q B -> zshape r s C ->
  kron (kron A B) C = kron A (kron B C).
Proof. exact kron_assoc. Qed.

Theorem C20_otimes_cons : forall A B Bs, otimes A (B :: Bs) = otimes (kron A B) Bs.
Proof. exact otimes_cons. Qed.

Theorem C20_otimes_nil : forall A, otimes A [] = A.
Proof. exact otimes_nil. Qed.

Theorem C20_mmul_entry : forall m n p A B, zshape m n A -> zshape n p B -> forall i j, i < m -> j < p ->
  zget (mmul A B) i j = fold_right Z.add 0%Z (map (fun k => (zget A i k * zget B k j)%Z) (seq 0 n)).
Proof. exact mmul_entry. Qed.

Theorem C20_ipower_nonneg : forall A p, (0 <= p)%Z -> ipower A p = mpow A (Z.to_nat p).
Proof. exact ipower_nonneg. Qed.

Theorem C20_ipower_neg : forall A p, (p < 0)%Z -> ipower A p = mpow (transpose A) (Z.to_nat (- p)).
Proof. exact ipower_neg. Qed.

Theorem C20_mpow_S : forall A k, mpow A (S k) = mmul A (mpow A k).
Proof. exact mpow_S. Qed.

Theorem C20_kron_ident : forall a b, kron (ident a) (ident b) = ident (a * b).
Proof. exact kron_ident. Qed.

Theorem C20_apply_prefix_is_kron : forall r1 r2 U,
  Forall (fun r => 0 < r) r1 -> Forall (fun r => 0 < r) r2 -> zshape (dim r1) (dim r1) U ->
  embed (r1 ++ r2) (seq 0 (length r1)) U = kron U (ident (dim r2)).
Proof. exact embed_prefix. Qed.

Theorem C20_apply_suffix_is_kron : forall r1 r2 U,
  Forall (fun r => 0 < r) r1 -> Forall (fun r => 0 < r) r2 -> zshape (dim r2) (dim r2) U ->
  embed (r1 ++ r2) (seq (length r1) (length r2)) U = kron (ident (dim r1)) U.
Proof. exact embed_suffix. Qed.

(* arbitrary location (any duplicate-free in-range qudit list in any order, any positive
   radixes): the applied operator is the Kronecker product U (x) I conjugated by the wire
   permutation P that brings the location's qudits to the front *)
Theorem C20_apply_general_is_kron : forall radixes loc U,
  Forall (fun r => 0 < r) radixes -> NoDup loc -> (forall q, In q loc -> q < length radixes) ->
  zshape (dim (map (fun q => nth q radixes 0) loc)) (dim (map (fun q => nth q radixes 0) loc)) U ->
  let rest := filter (fun q => negb (mem q loc)) (seq 0 (length radixes)) in
  let order := loc ++ rest in
  let P := perm_matrix_mixed radixes order in
  embed radixes loc U = mmul (transpose P) (mmul (kron U (ident (dim (map (fun q => nth q radixes 0) rest)))) P).
Proof. exact embed_general. Qed.

Example C20_kron_nonvacuous :
  kron [[1; 2]; [3; 4]]%Z [[0; 1]; [1; 0]]%Z = [[0; 1; 0; 2]; [1; 0; 2; 0]; [0; 3; 0; 4]; [3; 0; 4; 0]]%Z
  /\ ipower [[0; 1; 0]; [0; 0; 1]; [1; 0; 0]]%Z (-2) = [[0; 1; 0]; [0; 0; 1]; [1; 0; 0]]%Z
  /\ embed [2; 3] [1] [[0; 0; 1]; [1; 0; 0]; [0; 1; 0]]%Z = kron (ident 2) [[0; 0; 1]; [1; 0; 0]; [0; 1; 0]]%Z.
Proof. repeat split; reflexivity. Qed.
