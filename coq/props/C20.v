(* C20 - coupling-graph and qudit-permutation utilities match their definitions.
   Only statements closed by `exact`; proofs live in map/GraphThm.v. *)
From Coq Require Import List Arith.
Import ListNotations.
From BQ Require Import map.Graph map.GraphThm.

(* CouplingGraph.is_fully_connected answers, for every non-empty graph whose
   neighbour lists stay in range, and answers `true` exactly when every vertex is
   reachable from vertex 0 (the textbook definition for an undirected graph). *)
Theorem C20_connected_iff : forall g,
  wf g -> length g <> 0 ->
  exists b, is_fully_connected g = Some b /\ (b = true <-> allreach g).
Proof. exact is_fully_connected_spec. Qed.

Theorem C20_connected_empty_raises : is_fully_connected [] = None.
Proof. exact is_fully_connected_empty. Qed.

(* non-vacuity: a concrete graph meets the hypotheses, both answers occur *)
Example C20_connected_nonvacuous :
  wf [[1];[0;2];[1]] /\ is_fully_connected [[1];[0;2];[1]] = Some true
  /\ is_fully_connected [[1];[0];[]] = Some false.
Proof. split; [|split; reflexivity].
  intros q x. destruct q as [|[|[|q]]]; simpl; intuition (subst; auto with arith); destruct q; contradiction. Qed.
