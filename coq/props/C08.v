(* C08 - partitioning regroups operations without changing the program.
   Only statements closed by `exact`; proofs live in part/PartCheck.v, part/QuickMerge.v,
   part/QuickInv.v and part/QuickThm.v.

   (ScanPartitioner: part/Scan.v, proofs in part/ScanCalc.v and part/ScanThm.v.)

   Spec: part/PartSpec.v (good_partition).  Model of QuickPartitioner.run: part/Quick.v
   (`quick k fx nq ncyc ops hints`; fx = false is the unchanged code, `hints` replays the
   iteration order of the `overlapping_bins` sets, the theorems hold for every order). *)
From Coq Require Import List Arith Bool NArith ZArith Permutation.
Import ListNotations.
From BQ Require Import lib.Trace part.PartSpec part.PartCheck part.Quick
  part.QuickLemmas part.QuickMerge part.QuickInv part.QuickThm part.QuickLive
  part.Scan part.ScanCalc part.ScanThm part.PartCheckComplete.

(* ---- the verified oracle (run on the output of every partitioner) ---- *)
Theorem C08_check_sound : forall k i o,
  check_partition k i o = true -> good_partition k i o.
Proof. exact check_partition_sound. Qed.

(* ... and complete: it accepts every good partition, so a rejection by the oracle IS a violation of the
   property (no false alarms by construction) *)
Theorem C08_check_complete : forall k i o,
  good_partition k i o -> check_partition k i o = true.
Proof. exact check_partition_complete. Qed.

Theorem C08_check_iff : forall k i o,
  check_partition k i o = true <-> good_partition k i o.
Proof. exact check_partition_iff. Qed.

(* a good partition has the same meaning as its input in every semantics in which
   operations on disjoint qudits commute (matrices in particular) *)
Theorem C08_good_partition_same_unitary :
  forall (M : Type) (mul : M -> M -> M) (one : M) (den : op -> M),
  (forall x y z, mul x (mul y z) = mul (mul x y) z) ->
  (forall x, mul one x = x) ->
  (forall a b, indep op oloc a b -> mul (den a) (den b) = mul (den b) (den a)) ->
  forall k i o,
  (forall a, In a i -> oloc a <> []) ->
  good_partition k i o -> sem M mul one den (unfold o) = sem M mul one den i.
Proof. exact good_partition_same_unitary. Qed.

Example C08_check_nonvacuous :
  let h := mkOp 1 [0] 0 KGate in let cx := mkOp 2 [0;1] 0 KGate in let b := mkOp 3 [1] 0 KBarrier in
  check_partition 2 [h; cx; b] [Block [0;1] [h; cx]; Leaf b] = true /\
  check_partition 2 [h; cx; b] [Block [0;1] [cx; h]; Leaf b] = false /\
  check_partition 2 [h; cx; b] [Block [0;1] [h; cx; b]] = false.
Proof. repeat split; vm_compute; reflexivity. Qed.

(* ---- QuickPartitioner ---- *)

(* The key lemma.  `inv k c pre st` (part/QuickInv.v) says, for the state after the
   operations `pre` of the input `c`: every live bin is a SLAB (its operations on each of
   its qudits q are exactly the input's operations on q in cycles [starts q, ends q]),
   the emitted circuit restricted to q is exactly the input's operations on q left of
   dividing_line[q], and emitted + live operations are a permutation of `pre`.
   Emitting a pending bin whose starts equal the dividing line keeps all of this
   (in particular the emitted timelines stay prefixes of the input's timelines). *)
Theorem C08_emit_order : forall k ncyc c,
  ordered c -> (forall x, In x c -> (fst x < ncyc)%Z) ->
  forall pre st b,
  inv k c pre st -> In b (bins st) -> In (bid b) (pend st) -> ready (dl st) b = true ->
  inv k c pre (emit ncyc b st).
Proof. exact emit_inv. Qed.

(* the merge-with-rear loop changes neither timelines nor the multiset of operations
   and keeps blocks well-formed *)
Theorem C08_merge_rear_preserves : forall k fuel o loc body o' loc' body',
  Forall (block_ok k) o -> Forall no_barrier_inside o ->
  block_ok k (Block loc body) -> (forall x, In x body -> okind x = KGate) ->
  merge_loop fuel o loc body = (o', loc', body') ->
  merge_ok k o loc body o' loc' body'.
Proof. exact merge_rear_preserves. Qed.

(* the main loop keeps the invariant (every bin a slab, ...), whatever the block size,
   the set-iteration order and the barrier repair flag *)
Theorem C08_quick_slab_inv : forall k ncyc c,
  ordered c -> (forall x, In x c -> (fst x < ncyc)%Z) ->
  (forall x, In x c -> NoDup (oloc (snd x))) -> (forall x, In x c -> oloc (snd x) <> []) ->
  forall fx ops pre hints st st',
  c = pre ++ ops -> inv k c pre st ->
  run_ops k fx ncyc ops hints st = inl st' -> inv k c c st'.
Proof. exact run_ops_inv. Qed.

(* The full statement: for a valid replay of the set-iteration order QuickPartitioner always
   returns, and returns a good partition (EBadHint = the replayed order is not a permutation of
   the computed overlapping set, i.e. not a run of the code). *)
Definition C08_quick_correct_full (fx : bool) : Prop :=
  forall k nq ncyc c hints, 2 <= k -> wf_input nq ncyc c ->
  quick k fx nq ncyc c hints = inr EBadHint \/
  exists o, quick k fx nq ncyc c hints = inl o /\ good_partition k (map snd c) o.

(* What is proved: correctness GIVEN that all bins are emitted (no RuntimeError).
   Holds for every circuit, every block size (k >= 2 is not even needed), every
   iteration order, and for the unchanged as well as the repaired code. *)
Theorem C08_quick_correct_partial : forall k fx nq ncyc c hints o,
  wf_input nq ncyc c ->
  quick k fx nq ncyc c hints = inl o ->
  good_partition k (map snd c) o /\ all_gates_blocked o.
Proof. exact quick_correct_partial. Qed.

Theorem C08_quick_same_unitary : forall k fx nq ncyc c hints o
  (M : Type) (mul : M -> M -> M) (one : M) (den : op -> M),
  (forall x y z, mul x (mul y z) = mul (mul x y) z) ->
  (forall x, mul one x = x) ->
  (forall a b, indep op oloc a b -> mul (den a) (den b) = mul (den b) (den a)) ->
  wf_input nq ncyc c ->
  quick k fx nq ncyc c hints = inl o ->
  sem M mul one den (unfold o) = sem M mul one den (map snd c).
Proof. exact quick_same_unitary. Qed.

(* The liveness half (C08_quick_all_emitted: "the RuntimeError is unreachable") is FALSE
   for the unchanged code: on  CX(0,1); barrier(1); CX(1,2); barrier(2,3); CX(0,3)
   with block size 3 the faithful model - and the implementation - end with pending bins. *)
Theorem C08_quick_all_emitted_refuted :
  wf_input 4 5 deadlock_circuit /\
  quick 3 false 4 5 deadlock_circuit deadlock_hints = inr EPending.
Proof. exact quick_all_emitted_refuted. Qed.

Theorem C08_quick_correct_full_refuted : ~ C08_quick_correct_full false.
Proof. exact quick_correct_full_refuted. Qed.

(* ... and TRUE for the repaired code (fx = true: fixes/C08.Q1.patch, the blocked-qudit propagation is
   also run when a BarrierBin is created), and for the unchanged code on circuits without
   barriers/measurements/resets: for every circuit, block size and iteration order, when the sweep
   ends no bin is left pending, i.e. `raise RuntimeError('Unable to process all pending bins')`
   is unreachable.  (Invariants of part/QuickLive.v: live slots on a qudit form a chain starting at the
   dividing line, the dependency graph between live bins is acyclic, and blocked_qudits of an active
   bin contains the qudits of every bin that depends on it.) *)
Theorem C08_quick_all_emitted : forall k fx nq ncyc c hints st2,
  wf_input nq ncyc c ->
  (fx = true \/ forall x, In x c -> okind (snd x) = KGate) ->
  quick_state k fx nq ncyc c hints = inl st2 -> pend st2 = [].
Proof. exact quick_all_emitted. Qed.

(* Together: for the repaired code (or barrier-free input) run() returns a good partition as soon as the
   sweep itself went through.  Still covered by correspondence only: the two `assert`s of the main loop
   and the table lookups of the model (EAssert / ENoBin / EFuel results of `quick_state`). *)
Theorem C08_quick_correct : forall k fx nq ncyc c hints st2,
  wf_input nq ncyc c ->
  (fx = true \/ forall x, In x c -> okind (snd x) = KGate) ->
  quick_state k fx nq ncyc c hints = inl st2 ->
  quick k fx nq ncyc c hints = inl (out st2) /\
  good_partition k (map snd c) (out st2) /\ all_gates_blocked (out st2).
Proof. exact quick_returns. Qed.

(* non-vacuity: a well-formed circuit with a barrier and a 3-qudit gate on which the
   unchanged model returns a partition (so the hypotheses of C08_quick_correct_partial are
   satisfiable), and the repaired model (fx = true) partitions the deadlock witness *)
Example C08_quick_nonvacuous :
  let c := [(0%Z, cx 0 1); (0%Z, mkOp 3 [2] 1 KGate); (1%Z, mkOp 4 [1; 2; 3] 1 KGate);
            (2%Z, bar [0; 1]); (3%Z, cx 0 1)] in
  wf_input 4 4 c /\
  quick 2 false 4 4 c [[]; []; [0; 1]; [0; 2]; []] =
    inl [Block [0; 1] [cx 0 1]; Block [1; 2; 3] [mkOp 3 [2] 1 KGate; mkOp 4 [1; 2; 3] 1 KGate];
         Leaf (bar [0; 1]); Block [0; 1] [cx 0 1]].
Proof. split; [apply wf_inputb_sound; vm_compute; reflexivity| vm_compute; reflexivity]. Qed.

Example C08_quick_fixed_on_witness :
  quick 3 true 4 5 deadlock_circuit deadlock_hints =
  inl [Block [0; 1] [cx 0 1]; Leaf (bar [1]); Block [1; 2] [cx 1 2]; Leaf (bar [2; 3]); Block [0; 3] [cx 0 3]].
Proof. exact quick_fixed_on_witness. Qed.

(* ---- ScanPartitioner (part/Scan.v: run, calculate_block, FastRegionIterator, find_best_block,
   fold_circuit; the list returned by calculate_qudit_groups is a replayed input that the model
   checks; the scoring function is a parameter) ---- *)

(* The key lemma: the region calculate_block computes for a qudit group is CLOSED - an operation with
   one point inside the region has all its points inside - whenever the starting cycles are a
   consistent cut of the circuit (`Hcut`: the divider never separates the qudits of one operation). *)
Theorem C08_scan_block_closed : forall k nc c g,
  ordered c -> (forall x, In x c -> (fst x < nc)%Z) ->
  forall D, NoDup g ->
  (forall x q q', In x c -> In q (oloc (snd x)) -> In q' (oloc (snd x)) -> (fst x < dv D q)%Z -> (fst x < dv D q')%Z) ->
  forall r ops, calc_block k nc c g (starts_of D g) = inl (r, ops) ->
  (forall e, In e r -> In (rq e) g /\ rlo e = dv D (rq e) /\ (rlo e <= rhi e)%Z) /\
  NoDup (map rq r) /\ closed_region c r.
Proof. exact calc_block_closed. Qed.

(* one iteration of the `while` loop keeps: the divider is a consistent cut, every potential block is
   the calculate_block of the current divider, the chosen regions unfold to exactly the operations left
   of the divider (as a multiset and per qudit in order), every chosen region lies inside one group *)
Theorem C08_scan_step_inv : forall k nq nc c, scan_wf nq nc c ->
  forall D P R g r ops P',
  linv k nq nc c D P R -> In (g, (r, ops)) P ->
  remap k nc c (update_div D r) (map rq r) P = inl P' ->
  linv k nq nc c (update_div D r) P' (r :: R).
Proof. exact step_inv. Qed.

(* The C08 statement for ScanPartitioner without the barrier clause, for EVERY scoring function,
   block size and (checked) list of qudit groups: whenever run() returns, every block spans at most
   max(block size, widest gate inside) qudits, every operation occurs exactly once with its
   parameters, the per-qudit operation sequences of the unfolded output are those of the input, and
   every top-level item is a block. *)
Theorem C08_scan_regrouping : forall score k nq nc c groups o,
  scan_wf nq nc c ->
  scan score k nq nc c groups = inl o ->
  regrouping k (map snd c) o /\ all_blocks o.
Proof. exact scan_regrouping. Qed.

(* the full statement (with the barrier clause) on input without barriers/measurements/resets ... *)
Theorem C08_scan_good_partition : forall score k nq nc c groups o,
  scan_wf nq nc c -> (forall x, In x c -> okind (snd x) = KGate) ->
  scan score k nq nc c groups = inl o -> good_partition k (map snd c) o.
Proof. exact scan_good_partition. Qed.

Theorem C08_scan_same_unitary : forall score k nq nc c groups o
  (M : Type) (mul : M -> M -> M) (one : M) (den : op -> M),
  (forall x y z, mul x (mul y z) = mul (mul x y) z) ->
  (forall x, mul one x = x) ->
  (forall a b, indep op oloc a b -> mul (den a) (den b) = mul (den b) (den a)) ->
  scan_wf nq nc c -> (forall x, In x c -> okind (snd x) = KGate) ->
  scan score k nq nc c groups = inl o ->
  sem M mul one den (unfold o) = sem M mul one den (map snd c).
Proof. exact scan_same_unitary. Qed.

(* ... and the full statement is FALSE for ScanPartitioner when barriers occur: it treats them as
   gates and absorbs them into blocks (finding C08.B1; the implementation does the same) *)
Definition C08_scan_correct_full : Prop :=
  forall score k nq nc c groups o, scan_wf nq nc c ->
  scan score k nq nc c groups = inl o -> good_partition k (map snd c) o.

Theorem C08_scan_barrier_absorbed :
  scan_wf 2 1 scan_barrier_circuit /\
  scan default_score 2 2 1 scan_barrier_circuit [[0; 1]] = inl [Block [0; 1] [mkOp 1 [0; 1] 0 KBarrier]] /\
  ~ good_partition 2 (map snd scan_barrier_circuit) [Block [0; 1] [mkOp 1 [0; 1] 0 KBarrier]].
Proof. exact scan_barrier_absorbed. Qed.

Theorem C08_scan_correct_full_refuted : ~ C08_scan_correct_full.
Proof. exact scan_correct_full_refuted. Qed.

(* non-vacuity: a well-formed circuit (3-qudit gate, two overlapping groups, a gate that stops a
   group's scan) on which the model returns three blocks *)
Example C08_scan_nonvacuous :
  let c := [(0%Z, cx 0 1); (0%Z, mkOp 3 [2] 1 KGate); (1%Z, mkOp 4 [1; 2; 3] 1 KGate);
            (2%Z, cx 0 1); (2%Z, mkOp 3 [3] 2 KGate)] in
  scan_wf 4 3 c /\
  scan default_score 3 4 3 c [[0; 1; 2]; [1; 2; 3]] =
    inl [Block [0; 1; 2] [cx 0 1; mkOp 3 [2] 1 KGate];
         Block [1; 2; 3] [mkOp 4 [1; 2; 3] 1 KGate; mkOp 3 [3] 2 KGate];
         Block [0; 1] [cx 0 1]].
Proof. split; [apply scan_wfb_sound; vm_compute; reflexivity| vm_compute; reflexivity]. Qed.
