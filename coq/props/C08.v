(* C08 - partitioning regroups operations without changing the program.
   Only statements closed by `exact`; proofs live in part/PartCheck.v and part/QuickThm.v. *)
From Coq Require Import List Arith Bool NArith ZArith Permutation.
Import ListNotations.
From BQ Require Import lib.Trace part.PartSpec part.PartCheck.

(* The executable oracle that is run on the output of every partitioner is sound. *)
Theorem C08_check_sound : forall k i o,
  check_partition k i o = true -> good_partition k i o.
Proof. exact check_partition_sound. Qed.

(* ... and a good partition has the same meaning as its input in every semantics in which
   operations on disjoint qudits commute (matrices, in particular). *)
Theorem C08_good_partition_same_unitary :
  forall (M : Type) (mul : M -> M -> M) (one : M) (den : op -> M),
  (forall x y z, mul x (mul y z) = mul (mul x y) z) ->
  (forall x, mul one x = x) ->
  (forall a b, indep op oloc a b -> mul (den a) (den b) = mul (den b) (den a)) ->
  forall k i o,
  (forall a, In a i -> oloc a <> []) ->
  good_partition k i o -> sem M mul one den (unfold o) = sem M mul one den i.
Proof. exact good_partition_same_unitary. Qed.

(* non-vacuity: the oracle accepts a regrouping and rejects a reordering / an absorbed barrier *)
Example C08_check_nonvacuous :
  let h := mkOp 1 [0] 0 KGate in let cx := mkOp 2 [0;1] 0 KGate in let b := mkOp 3 [1] 0 KBarrier in
  check_partition 2 [h; cx; b] [Block [0;1] [h; cx]; Leaf b] = true /\
  check_partition 2 [h; cx; b] [Block [0;1] [cx; h]; Leaf b] = false /\
  check_partition 2 [h; cx; b] [Block [0;1] [h; cx; b]] = false.
Proof. repeat split; vm_compute; reflexivity. Qed.
