(* props/SameUnitary.v - "...and therefore the same unitary", CONCRETELY.
   C04 / C08 / C09 prove their "same unitary" clauses for any monoid semantics in which operations on disjoint
   qudits commute (and SWAP is natural).  Here those theorems are instantiated with the matrix semantics of
   lib/Tensor.v (property C06): dim x dim matrices, dim = prod radixes, over ANY commutative ring, gate matrix
   U o embedded at the operation's location (Tensor.embed), products in circuit order = Sim.uprod = what
   Circuit.get_unitary computes (C06_unitary_is_product).  Statements only (closed by `exact`);
   proofs: lib/MatrixSemThm.v; the monoid: lib/MatrixSem.v. *)
From Coq Require Import List NArith Arith ZArith Ring Bool.
Import ListNotations.
From BQ Require Import lib.Perm lib.Tensor lib.TensorThm lib.Trace lib.MatrixSem lib.MatrixSemThm circuit.Sim.
From BQ Require circuit.CModel circuit.CThm part.PartSpec part.PartCheck part.Quick part.QuickThm.
From BQ Require map.Graph map.Sabre map.SabreDag map.SabreThm map.SabreSem map.Placement map.PlacementThm.
From BQ Require circuit.SimExec.
Open Scope N_scope.

Section SameUnitary.
(* any commutative ring of matrix entries, any radixes (all positive) *)
Variable R : Type.
Variables (r0 r1 : R) (radd rmul rsub : R -> R -> R) (ropp : R -> R).
Hypothesis Rth : ring_theory r0 r1 radd rmul rsub ropp (@eq R).
Variable radixes : list N.
Hypothesis Hpos : allpos radixes.

Local Notation n := (length radixes).
Local Notation I := (nd_identity R r0 r1 (prodN radixes)).
Local Notation uprod := (uprod R r0 radd rmul radixes).
Local Notation mat := (mat R radixes).
Local Notation mmul := (mmul R r0 radd rmul radixes).
Local Notation mone := (mone R r0 r1 radixes).

(* ---- the monoid of stored matrices: the three hypotheses of lib/Trace.v, for every assignment U ---- *)
Theorem matrix_monoid_assoc : forall x y z : mat, mmul x (mmul y z) = mmul (mmul x y) z.
Proof. exact (mmul_assoc R r0 r1 radd rmul rsub ropp Rth radixes Hpos). Qed.
Theorem matrix_monoid_unit : forall x : mat, mmul mone x = x /\ mmul x mone = x.
Proof. exact (fun x => conj (mmul_one_l R r0 r1 radd rmul rsub ropp Rth radixes Hpos x)
                            (mmul_one_r R r0 r1 radd rmul rsub ropp Rth radixes Hpos x)). Qed.
Theorem matrix_den_comm : forall (op : Type) (loc : op -> list nat) (U : op -> nd R) a b,
  indep op loc a b ->
  mmul (mden R r0 r1 radixes op loc U a) (mden R r0 r1 radixes op loc U b) =
  mmul (mden R r0 r1 radixes op loc U b) (mden R r0 r1 radixes op loc U a).
Proof. exact (mden_comm R r0 r1 radd rmul rsub ropp Rth radixes Hpos). Qed.

(* what the stored values are: equality in `mat` is entry-wise equality of dim x dim matrices; mmul x y is the
   matrix product (to_nd y) * (to_nd x) ("x first"); and Trace.prod is the ordered product of embedded matrices *)
Theorem matrix_eq_iff : forall A B : nd R, shape A = [prodN radixes; prodN radixes] ->
  nd_eq R A B -> inj R radixes A = inj R radixes B.
Proof. exact (inj_proper R radixes Hpos). Qed.
Theorem matrix_read_inj : forall A : nd R, shape A = [prodN radixes; prodN radixes] ->
  nd_eq R (to_nd R r0 radixes (inj R radixes A)) A.
Proof. exact (to_nd_inj R r0 radixes). Qed.
Theorem matrix_read_mul : forall x y : mat,
  nd_eq R (to_nd R r0 radixes (mmul x y)) (nd_matmul R r0 radd rmul (to_nd R r0 radixes y) (to_nd R r0 radixes x)).
Proof. exact (to_nd_mmul R r0 radd rmul radixes). Qed.
Theorem matrix_read_prod : forall (op : Type) (loc : op -> list nat) (U : op -> nd R) s,
  Forall (fun o => wf_loc n (loc o)) s ->
  nd_eq R (to_nd R r0 radixes (prod op mat mmul mone (mden R r0 r1 radixes op loc U) s))
          (uprod (mats_of R op loc U s) I).
Proof. exact (to_nd_prod R r0 r1 radd rmul rsub ropp Rth radixes). Qed.

(* any right-nested product of stored matrices (SabreSem.prodO / prodV / prodS below) reads back as the ordered
   matrix product of its factors, last factor leftmost *)
Theorem matrix_read_fold : forall xs : list mat,
  nd_eq R (to_nd R r0 radixes (fold_right mmul mone xs)) (ndprod R r0 r1 radd rmul radixes (map (to_nd R r0 radixes) xs)).
Proof. exact (to_nd_fold R r0 r1 radd rmul radixes). Qed.

(* ---- generic: programs equal up to swaps of adjacent operations on disjoint locations (Trace.equiv), in
   particular programs with equal per-qudit timelines, have the same ordered product of embedded matrices ---- *)
Theorem equiv_same_unitary_matrix : forall (op : Type) (loc : op -> list nat) (U : op -> nd R) s t,
  (forall a, In a s -> loc a <> []) -> (forall q, proj op loc q s = proj op loc q t) -> length s = length t ->
  Forall (fun o => wf_loc n (loc o)) s -> Forall (fun o => wf_loc n (loc o)) t ->
  nd_eq R (uprod (mats_of R op loc U s) I) (uprod (mats_of R op loc U t) I).
Proof. exact (timelines_same_matrix R r0 r1 radd rmul rsub ropp Rth radixes Hpos). Qed.

(* ---- C04: two circuits of the grid model with the invariant and equal timelines ---- *)
Theorem C04_same_unitary_matrix : forall (U : CModel.op -> nd R) (c1 c2 : CModel.circuit),
  CThm.Inv c1 -> CThm.Inv c2 ->
  (forall o, In o (CModel.iter_ops (CModel.cycles c1)) -> CModel.o_loc o <> []) ->
  length (CModel.iter_ops (CModel.cycles c1)) = length (CModel.iter_ops (CModel.cycles c2)) ->
  (forall q, CThm.tl c1 q = CThm.tl c2 q) ->
  Forall (fun o => wf_loc n (CModel.o_loc o)) (CModel.iter_ops (CModel.cycles c1)) ->
  Forall (fun o => wf_loc n (CModel.o_loc o)) (CModel.iter_ops (CModel.cycles c2)) ->
  nd_eq R (uprod (mats_of R CModel.op CModel.o_loc U (CModel.iter_ops (CModel.cycles c1))) I)
          (uprod (mats_of R CModel.op CModel.o_loc U (CModel.iter_ops (CModel.cycles c2))) I).
Proof. exact (same_timelines_same_matrix R r0 r1 radd rmul rsub ropp Rth radixes Hpos). Qed.

(* ---- C08: a good partition, unfolded, has the unitary of its input; QuickPartitioner's output too ---- *)
Theorem C08_partition_same_unitary_matrix : forall (U : PartSpec.op -> nd R) k i o,
  (forall a, In a i -> PartSpec.oloc a <> []) ->
  Forall (fun a => wf_loc n (PartSpec.oloc a)) i ->
  PartSpec.good_partition k i o ->
  nd_eq R (uprod (mats_of R PartSpec.op PartSpec.oloc U (PartSpec.unfold o)) I)
          (uprod (mats_of R PartSpec.op PartSpec.oloc U i) I).
Proof. exact (good_partition_same_matrix R r0 r1 radd rmul rsub ropp Rth radixes Hpos). Qed.

Theorem C08_quick_same_unitary_matrix : forall (U : PartSpec.op -> nd R) k fx ncyc c hints o,
  QuickThm.wf_input n ncyc c -> Quick.quick k fx n ncyc c hints = inl o ->
  nd_eq R (uprod (mats_of R PartSpec.op PartSpec.oloc U (PartSpec.unfold o)) I)
          (uprod (mats_of R PartSpec.op PartSpec.oloc U (map snd c)) I).
Proof. exact (quick_same_matrix R r0 r1 radd rmul rsub ropp Rth radixes Hpos). Qed.

(* ---- wire permutations: P_f * embed L U = embed (f L) U * P_f  (f a radix-preserving bijection of the wires,
   perm_mat f [r; c] = 1 iff digit q of c is digit f(q) of r) ---- *)
Theorem embed_relabel_matrix : forall (f g : nat -> nat) L (U : nd R),
  wire_perm radixes f g -> wf_loc n L ->
  nd_eq R (nd_matmul R r0 radd rmul (perm_mat R r0 r1 radixes f) (embed R r0 radixes L U))
          (nd_matmul R r0 radd rmul (embed R r0 radixes (map f L) U) (perm_mat R r0 r1 radixes f)).
Proof. exact (embed_relabel R r0 r1 radd rmul rsub ropp Rth radixes Hpos). Qed.

(* ---- C09: routing.  All wires have the same radix (SwapGate needs it); gate g has matrix Ug g; the SwapGate on
   (a, b) is the permutation matrix of the transposition (a b) = embed [a; b] SwapGate (C09_swap_is_embed_matrix) ---- *)
Section Route.
Hypothesis Huni : forall q q', (q < n)%nat -> (q' < n)%nat -> nth q radixes 0 = nth q' radixes 0.
Variable Ug : nat -> nd R.
Local Notation mdenL := (mdenL R r0 r1 radixes Ug).
Local Notation msw := (msw R r0 r1 radixes).

Theorem C09_den_comm_matrix : forall g1 L1 g2 L2, (forall q, In q L1 -> ~ In q L2) ->
  mmul (mdenL g1 L1) (mdenL g2 L2) = mmul (mdenL g2 L2) (mdenL g1 L1).
Proof. exact (mdenL_comm R r0 r1 radd rmul rsub ropp Rth radixes Hpos Ug). Qed.

Theorem C09_swap_naturality_matrix : forall a b g L, (a < n)%nat -> (b < n)%nat ->
  mmul (msw a b) (mdenL g L) = mmul (mdenL g (map (tr a b) L)) (msw a b).
Proof. exact (msw_nat R r0 r1 radd rmul rsub ropp Rth radixes Hpos Huni Ug). Qed.

Theorem C09_read_matrix : forall g L a b, wf_loc n L -> (a < n)%nat -> (b < n)%nat ->
  nd_eq R (to_nd R r0 radixes (mdenL g L)) (embed R r0 radixes L (Ug g)) /\
  nd_eq R (to_nd R r0 radixes (msw a b)) (perm_mat R r0 r1 radixes (tr a b)).
Proof. exact (fun g L a b HL Ha Hb => conj (to_nd_mdenL R r0 r1 radixes Ug g L HL)
                                           (to_nd_msw R r0 r1 radixes a b Ha Hb)). Qed.

Theorem C09_swap_is_embed_matrix : forall a b, (a < n)%nat -> (b < n)%nat -> a <> b ->
  nd_eq R (perm_mat R r0 r1 radixes (tr a b)) (embed R r0 radixes [a; b] (swap_mat R r0 r1 (nth a radixes 0))).
Proof. exact (swap_is_embed R r0 r1 radixes Hpos Huni Ug). Qed.

Theorem C09_route_same_unitary_matrix : forall cg c pi0 tc s,
  SabreDag.wf_circ c n -> wfperm n pi0 ->
  Sabre.replay cg c true true (Sabre.init c n true pi0) tc = Some s -> Sabre.F s = [] ->
  SabreSem.prodO mat mmul mone mdenL msw (Sabre.out s) =
  mmul (SabreSem.prodV mat mmul mone mdenL pi0 (SabreThm.prog c))
       (SabreSem.prodS mat mmul mone msw (SabreThm.swaps_of (Sabre.out s))).
Proof. exact (route_same_matrix R r0 r1 radd rmul rsub ropp Rth radixes Hpos Huni Ug). Qed.

Theorem C09_mappings_same_unitary_matrix : forall g c nq p ltr rtr o d,
  n = length g -> SabreDag.wf_circ c nq -> (1 <= nq)%nat ->
  Placement.pipeline g c nq p ltr rtr = Some (o, d) ->
  SabreSem.prodO mat mmul mone mdenL msw o =
    mmul (SabreSem.prodV mat mmul mone mdenL (Placement.imap d) (SabreThm.prog c))
         (SabreSem.prodS mat mmul mone msw (SabreThm.swaps_of o))
  /\ Placement.fmap d = map (tr_all (SabreThm.swaps_of o)) (Placement.imap d).
Proof. exact (mappings_same_matrix R r0 r1 radd rmul rsub ropp Rth radixes Hpos Huni Ug). Qed.
End Route.
End SameUnitary.

(* ---- non-vacuity over the Gaussian integers Z[i] (TensorThm.gi_ring) ----
   qubits 0, 1 and a qutrit 2; a0 = [[1,1],[1,-1]] on qudit 0, s2 = the qutrit shift on qudit 2, cx = CNOT with
   control 1 and target 0 (location [1;0]).  c1 holds a0 and s2 in one cycle, c2 holds s2 in a third cycle after cx:
   different operation order ([a0; s2; cx] vs [a0; cx; s2]), same timelines, hence the same 12 x 12 matrix. *)
Definition ex_a0 : CModel.op := CModel.Op false 0 [0%nat] [] [2%nat] [].
Definition ex_s2 : CModel.op := CModel.Op false 1 [2%nat] [] [3%nat] [].
Definition ex_cx : CModel.op := CModel.Op false 2 [1%nat; 0%nat] [] [2%nat; 2%nat] [].
Definition ex_c1 : CModel.circuit := CModel.mkC 3 [2%nat; 2%nat; 3%nat] [[ex_a0; ex_s2]; [ex_cx]].
Definition ex_c2 : CModel.circuit := CModel.mkC 3 [2%nat; 2%nat; 3%nat] [[ex_a0]; [ex_cx]; [ex_s2]].
Definition ex_m1 : GI := (-1, 0)%Z.
Definition ex_U (o : CModel.op) : nd GI :=
  match CModel.o_gate o with
  | 0%nat => SimExec.rows_nd 2 [[gi1; gi1]; [gi1; ex_m1]]
  | 1%nat => SimExec.rows_nd 3 [[gi0; gi0; gi1]; [gi1; gi0; gi0]; [gi0; gi1; gi0]]
  | _ => SimExec.rows_nd 4 [[gi1; gi0; gi0; gi0]; [gi0; gi1; gi0; gi0]; [gi0; gi0; gi0; gi1]; [gi0; gi0; gi1; gi0]]
  end.
Definition ex_unitary (s : list CModel.op) : nd GI :=
  Sim.uprod GI gi0 gi_add gi_mul [2; 2; 3] (mats_of GI CModel.op CModel.o_loc ex_U s) (nd_identity GI gi0 gi1 12).

Lemma SameUnitary_C04_example :
  CModel.iter_ops (CModel.cycles ex_c1) = [ex_a0; ex_s2; ex_cx] /\
  CModel.iter_ops (CModel.cycles ex_c2) = [ex_a0; ex_cx; ex_s2] /\
  nd_eq GI (ex_unitary (CModel.iter_ops (CModel.cycles ex_c1))) (ex_unitary (CModel.iter_ops (CModel.cycles ex_c2))) /\
  at_ (ex_unitary [ex_a0; ex_s2; ex_cx]) [10; 3] = gi1 /\ at_ (ex_unitary [ex_a0; ex_cx; ex_s2]) [10; 3] = gi1 /\
  at_ (ex_unitary [ex_cx; ex_a0; ex_s2]) [10; 3] = ex_m1.
Proof.
  split; [reflexivity|]. split; [reflexivity|]. split; [|repeat split; vm_compute; reflexivity].
  assert (Hpos : allpos [2; 2; 3]) by (repeat constructor).
  assert (Inv_ : forall cs, Forall (fun cy : CModel.cycle => cy <> [] /\ forall q, (length (filter (CModel.touches q) cy) <= 1)%nat) cs ->
                 CThm.Inv (CModel.mkC 3 [2%nat; 2%nat; 3%nat] cs)) by (intros cs H; exact H).
  apply (C04_same_unitary_matrix GI gi0 gi1 gi_add gi_mul gi_sub gi_opp gi_ring [2; 2; 3] Hpos ex_U ex_c1 ex_c2).
  - apply Inv_. repeat (apply Forall_cons; [split; [discriminate|intros [|[|[|q]]]; cbn; auto]|]). apply Forall_nil.
  - apply Inv_. repeat (apply Forall_cons; [split; [discriminate|intros [|[|[|q]]]; cbn; auto]|]). apply Forall_nil.
  - intros o [<-|[<-|[<-|[]]]]; discriminate.
  - reflexivity.
  - intros [|[|[|q]]]; reflexivity.
  - repeat constructor; simpl; intuition discriminate.
  - repeat constructor; simpl; intuition discriminate.
Qed.

Example SameUnitary_C04_nonvacuous :
  CModel.iter_ops (CModel.cycles ex_c1) = [ex_a0; ex_s2; ex_cx] /\
  CModel.iter_ops (CModel.cycles ex_c2) = [ex_a0; ex_cx; ex_s2] /\
  nd_eq GI (ex_unitary (CModel.iter_ops (CModel.cycles ex_c1))) (ex_unitary (CModel.iter_ops (CModel.cycles ex_c2))) /\
  (* the common value is a genuine 12 x 12 matrix: |0,1,0> (3) goes to |0,1,1> + |1,1,1> (10), amplitude +1 ... *)
  at_ (ex_unitary [ex_a0; ex_s2; ex_cx]) [10; 3] = gi1 /\ at_ (ex_unitary [ex_a0; ex_cx; ex_s2]) [10; 3] = gi1 /\
  (* ... and the product IS order sensitive: cx before a0 (another timeline of qudit 0) gives amplitude -1 *)
  at_ (ex_unitary [ex_cx; ex_a0; ex_s2]) [10; 3] = ex_m1.
Proof. exact SameUnitary_C04_example. Qed.

(* C09: the hypotheses are satisfiable (three qubits), the permutation matrix of (0 2) maps |0,0,1> (1) to |1,0,0> (4),
   and it is SwapGate embedded at [0; 2] *)
Lemma SameUnitary_C09_example :
  let radixes := [2; 2; 2] in
  allpos radixes /\
  (forall q q', (q < length radixes)%nat -> (q' < length radixes)%nat -> nth q radixes 0 = nth q' radixes 0) /\
  at_ (perm_mat GI gi0 gi1 radixes (tr 0 2)) [4; 1] = gi1 /\ at_ (perm_mat GI gi0 gi1 radixes (tr 0 2)) [1; 1] = gi0 /\
  at_ (embed GI gi0 radixes [0%nat; 2%nat] (swap_mat GI gi0 gi1 2)) [4; 1] = gi1 /\
  at_ (to_nd GI gi0 radixes (msw GI gi0 gi1 radixes 0 2)) [4; 1] = gi1.
Proof.
  cbv zeta. split; [repeat constructor|]. split; [|repeat split; vm_compute; reflexivity].
  intros [|[|[|q]]] [|[|[|q']]] Hq Hq'; simpl in *; try reflexivity; exfalso;
    repeat match goal with H : (S _ < S _)%nat |- _ => apply Nat.succ_lt_mono in H end;
    match goal with H : (_ < 0)%nat |- _ => inversion H end.
Qed.

Example SameUnitary_C09_nonvacuous :
  let radixes := [2; 2; 2] in
  allpos radixes /\
  (forall q q', (q < length radixes)%nat -> (q' < length radixes)%nat -> nth q radixes 0 = nth q' radixes 0) /\
  at_ (perm_mat GI gi0 gi1 radixes (tr 0 2)) [4; 1] = gi1 /\ at_ (perm_mat GI gi0 gi1 radixes (tr 0 2)) [1; 1] = gi0 /\
  at_ (embed GI gi0 radixes [0%nat; 2%nat] (swap_mat GI gi0 gi1 2)) [4; 1] = gi1 /\
  at_ (to_nd GI gi0 radixes (msw GI gi0 gi1 radixes 0 2)) [4; 1] = gi1.
Proof. exact SameUnitary_C09_example. Qed.
