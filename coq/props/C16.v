(* C16 - objects shipped between processes arrive equal to what was sent.
   Circuit part: model of __reduce__/rebuild_circuit and the round-trip theorem.
   (PassData / Circuit field-wise copy/become: props/C16pd.v, generated from the
   source by harness/gen/gen_fields.py.) *)
From Coq Require Import List Arith Lia.
Import ListNotations.
From BQ Require Import circuit.CModel circuit.CThm circuit.CPickle circuit.CPickleThm circuit.CPickleTbl circuit.CPickleTblThm.

(* what __reduce__ marshals is exactly the list of cycles, each in iteration order *)
Theorem C16_reduce_is_cycles : forall c, Inv c -> reduce c = map fwd_cycle (cycles c).
Proof. exact reduce_is_cycles. Qed.

(* unpickling gives back the same width, radixes, cycle count, the same operation
   in every cell (so the same cycle layout), the same timelines, and a circuit
   that satisfies the invariant again *)
Theorem C16_circuit_roundtrip : forall c,
  Inv c ->
  let c' := rebuild (nq c) (rads c) (reduce c) in
  nq c' = nq c /\ rads c' = rads c /\ ncyc c' = ncyc c
  /\ (forall i q, get_cell c' i q = get_cell c i q)
  /\ (forall q, tl c' q = tl c q)
  /\ Inv c'.
Proof. exact pickle_roundtrip. Qed.

(* The hypothesis Inv is needed: with an idle cycle (known finding D6) the marshalled
   form drops it and the layout changes. *)
Example C16_needs_no_idle_cycle :
  let x0 := Op false 1 [0] [] [2] [] in
  reduce (mkC 1 [2] [[x0]; []; [x0]]) = [[x0]; [x0]].
Proof. vm_compute. reflexivity. Qed.

Example C16_nonvacuous :
  let cx := Op false 4 [1;0] [] [2;2] [] in
  let x1 := Op false 1 [1] [] [2] [] in
  let c := mkC 2 [2;2] [[cx]; [x1]] in
  Inv c /\ reduce c = [[cx]; [x1]].
Proof. split; [|vm_compute; reflexivity].
  unfold Inv; cbn [cycles].
  constructor; [split; [discriminate|]|constructor; [split; [discriminate|]|constructor]];
  intros q; cbn; repeat match goal with |- context[if ?b then _ else _] => destruct b end; cbn; auto. Qed.

(* ---- the gate table of __reduce__ / rebuild_circuit (circuit/CPickleTbl.v) ------------------------------------
   Operations are marshalled as an index into a table keyed by the gates' own __hash__/__eq__.  The round trip returns
   every operation with the very gate that was sent PROVIDED a key match (same hash and ==) identifies the gate; this
   hypothesis is evaluated on the real gate classes on every run (harness/c16_families.py). *)
Theorem C16_gate_table_roundtrip : forall (G : Type) (ghash : G -> nat) (geq : G -> G -> bool) (X : Type) (ops : list (G * X)),
  (forall a b, keq G ghash geq a b = true -> a = b) ->
  (forall a, keq G ghash geq a a = true) ->
  table_roundtrip G ghash geq X ops = Some ops.
Proof. exact table_roundtrip_ok. Qed.

(* the same for any table that covers the operations (the set iteration order is irrelevant) *)
Theorem C16_gate_table_roundtrip_any_table : forall (G : Type) (ghash : G -> nat) (geq : G -> G -> bool) (X : Type) tbl (ops : list (G * X)),
  (forall a b, keq G ghash geq a b = true -> a = b) ->
  (forall g, In g (map fst ops) -> lookup G ghash geq tbl g <> None) ->
  roundtrip G ghash geq X tbl ops = Some ops.
Proof. exact roundtrip_injective. Qed.

(* without the hypothesis: what arrives only MATCHES what was sent (so `received == sent` is no evidence) *)
Theorem C16_gate_table_roundtrip_weak : forall (G : Type) (ghash : G -> nat) (geq : G -> G -> bool) (X : Type) tbl (ops ops' : list (G * X)),
  roundtrip G ghash geq X tbl ops = Some ops' ->
  Forall2 (fun o o' => keq G ghash geq (fst o') (fst o) = true /\ snd o' = snd o) ops ops'.
Proof. exact roundtrip_keq. Qed.

(* the hypothesis is needed even when == is an equivalence relation consistent with the hash: gates (target, control level)
   compared on the target only arrive merged *)
Theorem C16_gate_table_needs_injective_eq_refuted :
  (forall a, w_eq a a = true) /\ (forall a b, w_eq a b = true -> w_eq b a = true)
  /\ (forall a b c, w_eq a b = true -> w_eq b c = true -> w_eq a c = true)
  /\ (forall a b, w_eq a b = true -> w_hash a = w_hash b)
  /\ exists ops', table_roundtrip _ w_hash w_eq nat w_ops = Some ops' /\ ops' <> w_ops
       /\ Forall2 (fun o o' => w_eq (fst o') (fst o) = true /\ snd o' = snd o) w_ops ops'.
Proof. exact table_needs_injective_eq_refuted. Qed.

(* non-vacuity: an injective, reflexive key match (gates = numbers) and a circuit using three gates, one of them twice *)
Example C16_gate_table_nonvacuous :
  (forall a b, keq nat (fun g => g) Nat.eqb a b = true -> a = b) /\ (forall a, keq nat (fun g => g) Nat.eqb a a = true)
  /\ marshal nat (fun g => g) Nat.eqb nat (gate_set_of nat (fun g => g) Nat.eqb [4; 7; 4; 9]) [(4, 0); (7, 1); (4, 2); (9, 3)]
      = Some [(0, 0); (1, 1); (0, 2); (2, 3)].
Proof. unfold keq. repeat split.
  - intros a b H. apply andb_prop in H. apply Nat.eqb_eq. apply H.
  - intros a. rewrite !Nat.eqb_refl. reflexivity. Qed.
