(* C16 - objects shipped between processes arrive equal to what was sent.
   Circuit part: model of __reduce__/rebuild_circuit and the round-trip theorem.
   (PassData / Circuit field-wise copy/become: props/C16pd.v, generated from the
   source by harness/gen/gen_fields.py.) *)
From Coq Require Import List Arith Lia.
Import ListNotations.
From BQ Require Import circuit.CModel circuit.CThm circuit.CPickle circuit.CPickleThm.

(* what __reduce__ marshals is exactly the list of cycles, each in iteration order *)
Theorem C16_reduce_is_cycles : forall c, Inv c -> reduce c = map fwd_cycle (cycles c).
Proof. exact reduce_is_cycles. Qed.

(* unpickling gives back the same width, radixes, cycle count, the same operation
   in every cell (so the same cycle layout), the same timelines, and a circuit
   that satisfies the invariant again *)
Theorem C16_circuit_roundtrip : forall c,
  Inv c ->
  let c' := rebuild (nq c) (rads c) (reduce c) in
  nq c' = nq c /\ rads c' = rads c /\ ncyc c' = ncyc c
  /\ (forall i q, get_cell c' i q = get_cell c i q)
  /\ (forall q, tl c' q = tl c q)
  /\ Inv c'.
Proof. exact pickle_roundtrip. Qed.

(* The hypothesis Inv is needed: with an idle cycle (known finding D6) the marshalled
   form drops it and the layout changes. *)
Example C16_needs_no_idle_cycle :
  let x0 := Op false 1 [0] [] [2] [] in
  reduce (mkC 1 [2] [[x0]; []; [x0]]) = [[x0]; [x0]].
Proof. vm_compute. reflexivity. Qed.

Example C16_nonvacuous :
  let cx := Op false 4 [1;0] [] [2;2] [] in
  let x1 := Op false 1 [1] [] [2] [] in
  let c := mkC 2 [2;2] [[cx]; [x1]] in
  Inv c /\ reduce c = [[cx]; [x1]].
Proof. split; [|vm_compute; reflexivity].
  unfold Inv; cbn [cycles].
  constructor; [split; [discriminate|]|constructor; [split; [discriminate|]|constructor]];
  intros q; cbn; repeat match goal with |- context[if ?b then _ else _] => destruct b end; cbn; auto. Qed.
