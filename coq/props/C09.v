(* C09 - placement, layout and routing preserve the program and respect the coupling.
   Only statements closed by `exact`; proofs live in lib/PermThm.v, map/SabreDag.v,
   map/SabreThm.v, map/SabreSem.v, map/SabreCoupled.v, map/PlacementThm.v.

   Models: lib/Perm.v (pi / placement / mapping lists), map/Sabre.v (forward and
   backward pass of GeneralizedSabreAlgorithm as a non-deterministic transition
   system; `replay` runs a recorded step sequence and returns None unless every
   step was enabled), map/Placement.v (SetModelPass, Trivial/Greedy/Static
   placement, layout and routing wrappers, ApplyPlacement, the pipeline).

   All theorems hold for EVERY sequence of enabled steps: the float heuristic
   (scores, decay, extended set, iteration order of sets) is not in the model.
   PARTIAL CORRECTNESS: there is no C09_terminates.  Whether the real loop
   reaches an empty front set depends on the heuristic; every theorem below is
   conditional on a run (`replay ... = Some s`, and `F s = []` where completion
   matters).  The statement that is not proved is kept as C09_terminates_full;
   what is provable (bounds) and why no more (C09_guards_do_not_bound_rounds) is in map/SabreBound.v. *)
From Coq Require Import List Arith Permutation Lia.
Import ListNotations.
From BQ Require Import lib.Perm lib.PermThm lib.Trace map.Graph map.GraphThm map.GraphSubThm map.GraphCtorThm
  map.Sabre map.SabreDag map.SabreThm map.SabreSem map.SabreCoupled map.Placement map.PlacementThm map.Pam map.PamThm map.PamSem
  map.PamPipe map.PamPipeThm map.PlacementSpecThm map.SabreStrict map.SabreBound.

(* ---- lib/Perm ------------------------------------------------------------------ *)
(* _apply_swap on a permutation pi of 0..n-1 is the value-level transposition of the
   two physical qudits, and pi stays a permutation. *)
Theorem C09_apply_swap_perm : forall n a b pi,
  wfperm n pi -> a < n -> b < n ->
  apply_swap (a, b) pi = Some (map (tr a b) pi) /\ wfperm n (map (tr a b) pi).
Proof. exact apply_swap_wfperm. Qed.

(* undoing a sequence of swaps in reverse order restores pi (backtracking cancels) *)
Theorem C09_swaps_cancel : forall n es pi pi',
  wfperm n pi -> apply_swaps es pi = Some pi' -> apply_swaps (rev es) pi' = Some pi.
Proof. exact apply_swaps_cancel. Qed.

(* _apply_perm(pi, placement) of the layout pass: new_placement[i] = placement[pi[i]] *)
Theorem C09_apply_perm_full : forall n perm pl,
  wfperm n perm -> length pl = n -> apply_perm perm pl = Some (compose pl perm).
Proof. exact apply_perm_full. Qed.

(* [p[x] for x in q] keeps injectivity *)
Theorem C09_compose_injective : forall m p q,
  injinto m p -> injinto (length p) q -> injinto m (compose p q).
Proof. exact compose_injinto. Qed.

Example C09_perm_nonvacuous :
  wfperm 4 [2;0;3;1] /\ apply_swap (3, 0) [2;0;3;1] = Some [2;3;0;1]
  /\ swap_by_value (3, 0) [2;0;3;1] = [1;0;3;2]                (* what a by-value update would give *)
  /\ apply_perm [2;0;3;1] [5;6;7;8] = Some [7;5;8;6]
  /\ compose [3;1;2] [1;2;0] = [1;2;3].
Proof. split; [apply wfpermb_wfperm; reflexivity|]. repeat split; reflexivity. Qed.

(* ---- C09_pi_is_swaps --------------------------------------------------------------- *)
(* In every pass (forward or backward, writing the circuit or not) pi stays a
   permutation of the physical qudits, whatever steps are taken. *)
Theorem C09_pi_stays_permutation : forall n cg c fwd modify tr s s',
  wfperm n (pi s) -> replay cg c fwd modify s tr = Some s' -> wfperm n (pi s').
Proof. exact replay_wfperm. Qed.

(* Routing: the final pi is the initial pi with exactly the swaps that remain in the
   mapped circuit applied in order by _apply_swap (backtracked swaps were removed from
   the circuit AND undone on pi). *)
Theorem C09_pi_is_swaps : forall cg c nq pi0,
  wf_circ c nq -> wfperm nq pi0 -> forall tr s,
  replay cg c true true (init c nq true pi0) tr = Some s ->
  wfperm nq (pi s) /\ apply_swaps (swaps_of (out s)) pi0 = Some (pi s)
  /\ pi s = map (tr_all (swaps_of (out s))) pi0.
Proof. exact pi_is_swaps. Qed.

(* Backtrack pops exactly the leading swaps: mapped_circuit.pop(_rear[swap[0]]) for the
   reversed leading swaps removes those swaps and nothing else, and restores pi. *)
Theorem C09_backtrack_exact : forall n ld base pib p,
  wfperm n pib -> apply_swaps ld pib = Some p ->
  undo true (rev ld) p (base ++ map osw ld) = Some (pib, base).
Proof. exact undo_spec. Qed.

(* ---- C09_route_sim ------------------------------------------------------------------- *)
(* Invariant, at every moment of a routing run: the logical view of the mapped circuit
   (walk it tracking the wire permutation, map every non-swap operation back to logical
   qudits) is the list of executed operations with their ORIGINAL locations; the
   executed set is duplicate-free and closed under DAG predecessors; and on every qudit
   its timeline is the timeline of the input restricted to the executed operations. *)
Theorem C09_route_sim_invariant : forall cg c nq pi0,
  wf_circ c nq -> wfperm nq pi0 -> forall tr s,
  replay cg c true true (init c nq true pi0) tr = Some s ->
  let ex := executed tr in
  lview pi0 (out s) = prog_of c ex /\ NoDup ex /\ down_closed c ex /\
  forall q, proj _ (@snd nat (list nat)) q (lview pi0 (out s)) =
            proj _ (@snd nat (list nat)) q (prog_of c (filter (fun n => memb n ex) (seq 0 (length c)))).
Proof. exact route_sim_inv. Qed.

(* At termination (front set empty) every operation has been executed exactly once ... *)
Theorem C09_route_complete : forall cg c nq pi0,
  wf_circ c nq -> wfperm nq pi0 -> forall tr s,
  replay cg c true true (init c nq true pi0) tr = Some s -> F s = [] ->
  Permutation (executed tr) (seq 0 (length c)).
Proof. exact route_complete. Qed.

(* ... hence the logical view equals the input up to commuting independent operations
   (lib/Trace.v: equal per-qudit timelines) ... *)
Theorem C09_route_sim : forall cg c nq pi0,
  wf_circ c nq -> wfperm nq pi0 -> forall tr s,
  replay cg c true true (init c nq true pi0) tr = Some s -> F s = [] ->
  equiv _ (@snd nat (list nat)) (prog c) (lview pi0 (out s)).
Proof. exact route_equiv. Qed.

(* ... hence, in every semantics where independent operations commute and SWAP is natural,
   the mapped circuit is the input placed through the initial pi followed by the emitted
   swaps (whose composite permutation is pi_final, C09_pi_is_swaps). *)
Theorem C09_route_same_unitary : forall cg c nq pi0,
  wf_circ c nq -> wfperm nq pi0 -> forall tc s,
  replay cg c true true (init c nq true pi0) tc = Some s -> F s = [] ->
  forall (M : Type) (mul : M -> M -> M) (one : M) (den : nat -> list nat -> M) (sw : nat -> nat -> M),
  (forall x y z, mul x (mul y z) = mul (mul x y) z) -> (forall x, mul one x = x) -> (forall x, mul x one = x) ->
  (forall n1 L1 n2 L2, (forall q, In q L1 -> q < nq) -> (forall q, In q L2 -> q < nq) ->
     (forall q, In q L1 -> ~ In q L2) -> mul (den n1 L1) (den n2 L2) = mul (den n2 L2) (den n1 L1)) ->
  (forall a b n L, a < nq -> b < nq -> (forall q, In q L -> q < nq) ->
     mul (sw a b) (den n L) = mul (den n (map (tr a b) L)) (sw a b)) ->
  prodO M mul one den sw (out s) =
  mul (prodV M mul one den pi0 (prog c)) (prodS M mul one sw (swaps_of (out s))).
Proof. exact route_sem. Qed.

(* ---- C09_coupled ------------------------------------------------------------------------ *)
(* Every operation of the mapped circuit sits on compose p (its logical location) for a
   permutation p under which _can_exe returned True; every emitted swap is on an edge. *)
Theorem C09_coupled : forall cg c nq pi0,
  wf_circ c nq -> wfperm nq pi0 -> forall tr s,
  replay cg c true true (init c nq true pi0) tr = Some s ->
  forall x, In x (out s) ->
  match x with
  | OG n L => exists p, wfperm nq p /\ n < length c /\ L = compose p (gloc (opat c n))
                        /\ can_exe cg p (opat c n) = Some true
  | OS a b => is_edge cg (a, b) = true /\ a < nq /\ b < nq
  end.
Proof. exact coupled. Qed.

(* What _can_exe guarantees, exactly: barriers, blocks of single-qudit gates and
   single-qudit operations are always accepted; any other operation is accepted only if
   its physical qudits are distinct vertices inducing a CONNECTED subgraph of cg
   (textbook definition, GraphSubThm.connected_set) - for two qudits: an edge. *)
Theorem C09_can_exe_meaning : forall cg p g,
  wf cg -> sym cg -> loopfree cg ->
  can_exe cg p g = Some true -> gfree g = false -> length (gloc g) <> 1 ->
  let L := compose p (gloc g) in
  NoDup L /\ (forall q, In q L -> q < length cg) /\ connected_set cg L /\
  (forall x y, L = [x; y] -> In y (nbrs cg x) /\ In x (nbrs cg y)).
Proof. exact can_exe_meaning. Qed.

(* ---- C09_only_swaps_added ---------------------------------------------------------------- *)
(* The mapped circuit minus its swaps is the executed input operations, each relabelled
   by a permutation; at termination every input operation occurs exactly once. *)
Theorem C09_only_swaps_added : forall cg c nq pi0,
  wf_circ c nq -> wfperm nq pi0 -> forall tr s,
  replay cg c true true (init c nq true pi0) tr = Some s ->
  map fst (gates_of (out s)) = executed tr /\
  (forall n L, In (n, L) (gates_of (out s)) ->
     exists p, wfperm nq p /\ n < length c /\ L = compose p (gloc (opat c n))) /\
  (F s = [] -> Permutation (map fst (gates_of (out s))) (seq 0 (length c))).
Proof. exact only_swaps_added. Qed.

(* ---- C09_mappings --------------------------------------------------------------------------- *)
(* layout: pi is a permutation and placement[i] := placement[pi[i]] *)
Theorem C09_layout : forall cg c nq trs pl p pl',
  length pl = nq -> layout_pass cg c nq trs pl = Some (p, pl') ->
  wfperm nq p /\ pl' = compose pl p.
Proof. exact layout_pass_spec. Qed.

(* routing: the run is complete and final_mapping := [pi[x] for x in final_mapping], i.e. the
   routing's pi is composed AFTER whatever final_mapping recorded before *)
Theorem C09_routing_final_mapping : forall cg c nq tr fm o p fm',
  routing_pass cg c nq tr fm = Some (o, p, fm') ->
  Graph.is_fully_connected cg = Some true /\
  exists s, replay cg c true true (init c nq true (idperm nq)) tr = Some s /\ F s = [] /\
            o = out s /\ p = pi s /\ fm' = compose p fm.
Proof. exact routing_pass_spec. Qed.

(* After [SetModelPass; placement; layout; routing; ApplyPlacement] (any placement pass,
   with or without layout, any recorded step sequences):
   with P0 the placement chosen by the placement pass, piL the layout's pi, piR the
   routing's final pi and P1 = P0 o piL,
     initial_mapping = P1 = P0 o piL          final_mapping = P1 o piR = P0 o piL o piR
   both injective into the machine; P1 is a connected set of machine qudits; the output
   circuit is the routed circuit relabelled by P1. *)
Theorem C09_mappings : forall g c nq,
  wf_circ c nq -> 1 <= nq -> forall p ltr rtr o d,
  pipeline g c nq p ltr rtr = Some (o, d) ->
  exists P0 piL piR cgR s,
    length P0 = nq /\ wfperm nq piL /\ wfperm nq piR /\
    let P1 := compose P0 piL in
    injinto (length g) P1 /\ length P1 = nq /\
    placement_connected g P1 = Some true /\
    connectivity (mkpd P1 (idperm nq) (idperm nq) g) = Some cgR /\
    replay cgR c true true (init c nq true (idperm nq)) rtr = Some s /\ F s = [] /\ pi s = piR /\
    o = map (relabel P1) (out s) /\
    imap d = P1 /\ fmap d = compose P1 piR /\ placement d = idperm (length g) /\
    injinto (length g) (imap d) /\ injinto (length g) (fmap d).
Proof. exact pipeline_mappings. Qed.

(* `placement_connected g P1 = Some true` above means: P1 is a duplicate-free, CONNECTED set of
   machine qudits (textbook definition), for every well-formed symmetric loop-free machine graph *)
Theorem C09_placement_connected_meaning : forall g pl,
  wf g -> sym g -> loopfree g -> placement_connected g pl = Some true ->
  NoDup pl /\ pl <> [] /\ (forall q, In q pl -> q < length g) /\ connected_set g pl.
Proof. exact placement_connected_meaning. Qed.

(* ... and in semantic form, on the machine: the output circuit equals the input with
   logical qudit l entering on physical qudit initial_mapping[l], followed by a swap
   network; pushing initial_mapping through that network gives final_mapping. *)
Theorem C09_mappings_same_unitary : forall g c nq,
  wf_circ c nq -> 1 <= nq ->
  forall (M : Type) (mul : M -> M -> M) (one : M) (den : nat -> list nat -> M) (sw : nat -> nat -> M),
  (forall x y z, mul x (mul y z) = mul (mul x y) z) -> (forall x, mul one x = x) -> (forall x, mul x one = x) ->
  (forall n1 L1 n2 L2, (forall q, In q L1 -> q < length g) -> (forall q, In q L2 -> q < length g) ->
     (forall q, In q L1 -> ~ In q L2) -> mul (den n1 L1) (den n2 L2) = mul (den n2 L2) (den n1 L1)) ->
  (forall a b n L, a < length g -> b < length g -> (forall q, In q L -> q < length g) ->
     mul (sw a b) (den n L) = mul (den n (map (tr a b) L)) (sw a b)) ->
  forall p ltr rtr o d,
  pipeline g c nq p ltr rtr = Some (o, d) ->
  prodO M mul one den sw o =
    mul (prodV M mul one den (imap d) (prog c)) (prodS M mul one sw (swaps_of o))
  /\ fmap d = map (tr_all (swaps_of o)) (imap d).
Proof. exact pipeline_sem. Qed.


(* ---- the placement passes and ApplyPlacement on their own ------------------------------------------ *)
(* TrivialPlacementPass: range(n), accepted only if it passes the connectivity test; the mappings
   and the model are not touched. *)
Theorem C09_trivial_placement : forall n d d',
  trivial_placement n d = Some d' ->
  placement d' = idperm n /\ placement_connected (mach d) (idperm n) = Some true /\
  imap d' = imap d /\ fmap d' = fmap d /\ mach d' = mach d.
Proof. exact trivial_placement_spec. Qed.

(* GreedyPlacementPass: n machine qudits in strictly ascending order (sorted(placement)), containing
   the first qudit of maximal degree, accepted by the connectivity test - and on an undirected graph
   connected BY CONSTRUCTION (C09_greedy_grows_connected), independently of that test. *)
Theorem C09_greedy_placement : forall n d d',
  greedy_placement n d = Some d' -> 1 <= n ->
  length (placement d') = n /\ Sorted.StronglySorted lt (placement d') /\
  placement_connected (mach d) (placement d') = Some true /\
  In (argmax (map (@length nat) (mach d))) (placement d') /\
  (sym (mach d) -> connected_set (mach d) (placement d')) /\
  imap d' = imap d /\ fmap d' = fmap d /\ mach d' = mach d.
Proof. exact greedy_placement_spec. Qed.

(* the greedy loop (any tie-breaking, any scores): every qudit it adds is adjacent to one already
   chosen, so the chosen set stays connected and only grows *)
Theorem C09_greedy_grows_connected : forall g, sym g -> forall fuel n pl nbs r,
  pl <> [] -> connected_set g pl -> (forall x, In x nbs -> exists y, In y pl /\ In x (nbrs g y)) ->
  greedy_loop fuel g n pl nbs = Some r ->
  connected_set g r /\ (forall x, In x pl -> In x r).
Proof. exact greedy_loop_connected. Qed.

(* StaticPlacementPass: an accepted search result maps every edge of the circuit's coupling graph onto
   a machine edge; a rejected one changes nothing.  Injectivity is the search's guarantee (oracle,
   re-checked each run), connectivity is NOT checked by this pass (layout / routing re-check it). *)
Theorem C09_static_placement : forall n ledges found d d',
  static_placement n ledges found d = Some d' ->
  (d' = d \/
   (placement d' = found /\ length found = n /\
    (forall e, In e ledges -> fst e < n /\ snd e < n /\ nth (fst e) found 0 < length (mach d) /\
                              In (nth (snd e) found 0) (nbrs (mach d) (nth (fst e) found 0))))) /\
  imap d' = imap d /\ fmap d' = fmap d /\ mach d' = mach d.
Proof. exact static_placement_spec. Qed.

(* Trivial / Greedy placement on a well-formed undirected loop-free machine: the published placement
   is a duplicate-free, in-range, CONNECTED (textbook definition) set of n machine qudits. *)
Theorem C09_checked_placement_connected : forall p n d d',
  (p = PTrivial \/ p = PGreedy) -> 1 <= n ->
  wf (mach d) -> sym (mach d) -> loopfree (mach d) ->
  run_placer p n d = Some d' ->
  length (placement d') = n /\ NoDup (placement d') /\ (forall q, In q (placement d') -> q < length (mach d)) /\
  connected_set (mach d) (placement d') /\ mach d' = mach d /\ imap d' = imap d /\ fmap d' = fmap d.
Proof. exact checked_placement_connected. Qed.

(* ApplyPlacement: both mappings are composed with the placement (logical l now starts on
   placement[initial_mapping[l]] and ends on placement[final_mapping[l]]), stay injective - into the
   machine -, the circuit's locations go through the placement, the placement becomes the identity
   of the machine. *)
Theorem C09_apply_placement : forall m o d o' d',
  apply_placement o d = Some (o', d') ->
  injinto m (placement d) -> injinto (length (placement d)) (imap d) -> injinto (length (placement d)) (fmap d) ->
  o' = map (relabel (placement d)) o /\
  imap d' = compose (placement d) (imap d) /\ fmap d' = compose (placement d) (fmap d) /\
  placement d' = idperm (length (mach d)) /\ mach d' = mach d /\
  injinto m (imap d') /\ injinto m (fmap d') /\
  (forall l, l < length (imap d) -> nth l (imap d') 0 = nth (nth l (imap d) 0) (placement d) 0) /\
  (forall l, l < length (fmap d) -> nth l (fmap d') 0 = nth (nth l (fmap d) 0) (placement d) 0).
Proof. exact apply_placement_full. Qed.

(* machine 0-1-2-3, 2-4: greedy starts at qudit 2 (degree 3) and returns {1,2,4}; the trivial placement
   is {0,1,2}; a static answer [4;2;3] for the path 0-1-2 is accepted, [4;3;2] is rejected (4-3 is not
   an edge); ApplyPlacement composes both mappings with the placement [1;2;3]. *)
Definition ex_gm : adj := mk_adj 5 [(0,1);(1,2);(2,3);(2,4)].
Example C09_placement_nonvacuous :
  wf ex_gm /\ sym ex_gm /\ loopfree ex_gm /\
  let d := mkpd [0;1;2] [0;1;2] [0;1;2] ex_gm in
  (exists d', run_placer PGreedy 3 d = Some d' /\ placement d' = [1;2;4]) /\
  (exists d', run_placer PTrivial 3 d = Some d' /\ placement d' = [0;1;2]) /\
  (exists d', static_placement 3 [(0,1);(1,2)] [4;2;3] d = Some d' /\ placement d' = [4;2;3]) /\
  static_placement 3 [(0,1);(1,2)] [4;3;2] d = Some d /\
  trivial_placement 3 (mkpd [0;1;2] [0;1;2] [0;1;2] (mk_adj 4 [(0,1);(1,3);(2,3)])) = None /\
  (exists o' d', apply_placement [OG 0 [2;0]; OS 0 1] (mkpd [1;2;3] [0;1;2] [1;0;2] ex_gm) = Some (o', d')
     /\ o' = [OG 0 [3;1]; OS 1 2] /\ imap d' = [1;2;3] /\ fmap d' = [2;1;3] /\ placement d' = [0;1;2;3;4]) /\
  injinto 5 [1;2;3] /\ injinto 3 [1;0;2].
Proof.
  assert (Hok : edges_ok 5 [(0,1);(1,2);(2,3);(2,4)]) by (intros e [<-|[<-|[<-|[<-|[]]]]]; simpl; lia).
  destruct (mk_adj_props 5 _ Hok) as (H1 & H2 & _ & H4).
  split; [exact H1|]. split; [exact H2|].
  split; [apply H4; intros e [<-|[<-|[<-|[<-|[]]]]]; simpl; lia|].
  cbv zeta.
  split; [eexists; split; [vm_compute; reflexivity|reflexivity]|].
  split; [eexists; split; [vm_compute; reflexivity|reflexivity]|].
  split; [eexists; split; [vm_compute; reflexivity|reflexivity]|].
  split; [vm_compute; reflexivity|].
  split; [vm_compute; reflexivity|].
  split; [eexists; eexists; split; [vm_compute; reflexivity|repeat split; reflexivity]|].
  split; apply injintob_injinto; reflexivity. Qed.

(* ---- permutation-aware mapping (PAM) ------------------------------------------------------------ *)
(* map/Pam.v: an executed block is replaced by a pre-synthesised triple (pre, circ, post) that
   _get_best_perm may choose only if perm_data has an entry for the coupling graph induced on
   the (permuted) physical location; pi is changed by _apply_perm(pre) and _apply_perm(post). *)

(* _apply_perm with a rearrangement of a subset of the indices keeps pi a permutation *)
Theorem C09_apply_perm_subset : forall n perm pi,
  wfperm n pi -> NoDup perm -> (forall x, In x perm -> x < n) ->
  exists pi', apply_perm perm pi = Some pi' /\ wfperm n pi'.
Proof. exact apply_perm_sub. Qed.

Theorem C09_pam_pi_stays_permutation : forall cg c bars tbl nq,
  wf_circ c nq -> forall modify tr s s',
  wfperm nq (ppi s) -> preplay cg c bars tbl modify s tr = Some s' -> wfperm nq (ppi s').
Proof. exact preplay_wfperm. Qed.

(* For every run of the PAM forward pass that writes the circuit: pi is a permutation; the
   blocks / barriers of the output are the executed operations in order, without repetition;
   every block is an ADMISSIBLE triple for the graph induced on the physical qudits it was looked
   up with and was accepted by _can_exe; every swap is on an edge; at termination every input
   operation occurs exactly once (only swaps, or permuted versions of the input's own blocks,
   are added). *)
Theorem C09_pam_partial : forall cg c bars tbl nq,
  wf_circ c nq -> forall pi0, wfperm nq pi0 -> forall tr s,
  preplay cg c bars tbl true (pinit c nq pi0) tr = Some s ->
  wfperm nq (ppi s) /\ pids (pout s) = pexecuted tr /\ NoDup (pexecuted tr) /\
  (forall x, In x (pout s) -> padm cg c bars tbl nq x) /\
  (pF s = [] -> Permutation (pids (pout s)) (seq 0 (length c))).
Proof. exact pam_run. Qed.

Theorem C09_pam_routing : forall cg c bars tbl nq tr fm o p fm',
  wf_circ c nq ->
  pam_routing_pass cg c bars tbl nq tr fm = Some (o, p, fm') ->
  Graph.is_fully_connected cg = Some true /\ wfperm nq p /\ fm' = compose p fm /\
  exists s, preplay cg c bars tbl true (pinit c nq (idperm nq)) tr = Some s /\ pF s = [] /\
            o = pout s /\ p = ppi s.
Proof. exact pam_routing_pass_spec. Qed.

Theorem C09_pam_layout : forall cg c bars tbl nq trs pl p pl',
  wf_circ c nq -> length pl = nq -> pam_layout_pass cg c bars tbl nq trs pl = Some (p, pl') ->
  wfperm nq p /\ pl' = compose pl p.
Proof. exact pam_layout_pass_spec. Qed.

(* The semantic clause for PAM.  The contract of a pre-synthesised triple (EmbedAllPermutationsPass:
   circ = Po^T . U . Pi) is taken as the MEANING of a block in the output (PamThm.blk: bring wire
   L[pre[j]] to L[j], apply the block on L, send L[j] to L[post[j]]) - whether the numerically
   synthesised circuit meets that contract is the oracle of C03/C10.  Then, for block locations in
   ascending order (what partitioners produce; pam.py's _apply_perm pairs sorted(perm) with perm),
   naturality of SWAP and of wire permutations, and barriers meaning identity: the PAM output is
   the input placed through the initial pi followed by the left-over wire permutations. *)
Theorem C09_pam_same_unitary : forall cg c bars tbl nq pi0 tc s,
  wf_circ c nq -> wfperm nq pi0 ->
  (forall n, n < length c -> nth n bars false = false -> Sorted.StronglySorted lt (gloc (opat c n))) ->
  preplay cg c bars tbl true (pinit c nq pi0) tc = Some s -> pF s = [] ->
  forall (M : Type) (mul : M -> M -> M) (one : M) (den : nat -> list nat -> M) (sw : nat -> nat -> M)
         (pmove : list nat -> list nat -> M),
  (forall x y z, mul x (mul y z) = mul (mul x y) z) -> (forall x, mul one x = x) -> (forall x, mul x one = x) ->
  (forall n1 L1 n2 L2, (forall q, In q L1 -> q < nq) -> (forall q, In q L2 -> q < nq) ->
     (forall q, In q L1 -> ~ In q L2) -> mul (den n1 L1) (den n2 L2) = mul (den n2 L2) (den n1 L1)) ->
  (forall a b n L, a < nq -> b < nq -> (forall q, In q L -> q < nq) ->
     mul (sw a b) (den n L) = mul (den n (map (tr a b) L)) (sw a b)) ->
  (* the wire permutation "move wire L[j] to L[r[j]]": an operation placed after it on L' acts on what
     was on fmove L (inverse r) L' before it *)
  (forall L r n L', NoDup L -> (forall q, In q L -> q < nq) -> wfperm (length L) r -> (forall q, In q L' -> q < nq) ->
     mul (pmove L r) (den n L') = mul (den n (map (fmove L (inverse r)) L')) (pmove L r)) ->
  (forall n, nth n bars false = true -> forall L, den n L = one) ->
  prodP M mul one den sw pmove (pout s) =
  mul (prodV M mul one den pi0 (prog c)) (ptail M mul one sw pmove (pout s)).
Proof. exact pam_sem. Qed.

(* the pi bookkeeping of a chosen triple, as wire maps: pre moves L[j] to L[inverse(pre)[j]] ... *)
Theorem C09_pam_perm_exec : forall nq cg p qudits pre post es L p2,
  wfperm nq p -> Sorted.StronglySorted lt qudits -> (forall q, In q qudits -> q < nq) ->
  perm_exec cg p qudits pre post = Some (es, L, p2) ->
  let p1 := map (fmove L (inverse pre)) p in
  wfperm (length L) pre /\ wfperm (length L) post /\ NoDup L /\ (forall q, In q L -> q < nq) /\
  wfperm nq p1 /\ L = compose p1 qudits /\ p2 = map (fmove L post) p1.
Proof. exact perm_exec_sorted. Qed.

Definition ex_pcg : adj := [[2];[2];[0;1]].
Definition ex_pc : circ := [mkop false [0;1;2]; mkop false [0;1]; mkop true [1]].
Definition ex_ptbl : ptable :=
  [[mkpt [(0,2);(1,2)] [0;1;2] [0;1;2]; mkpt [(0,2);(1,2)] [0;1;2] [1;0;2]];
   [mkpt [(0,1)] [0;1] [0;1]; mkpt [(0,1)] [0;1] [1;0]];
   [mkpt [] [0] [0]]].
(* a PAM routing run recorded from the implementation (line 0-2-1): two blocks leave their qudits
   permuted, one swap in between; final pi = [0;2;1] *)
Example C09_pam_nonvacuous :
  wf_circ ex_pc 3 /\
  exists s, preplay ex_pcg ex_pc [false;false;false] ex_ptbl true (pinit ex_pc 3 [0;1;2])
              [PExec 0 [0;1;2] [1;0;2]; PSwap (1,2); PExec 1 [0;1] [1;0]; PExec 2 [0] [0]] = Some s
    /\ pF s = [] /\ ppi s = [0;2;1] /\ pids (pout s) = [0;1;2]
    /\ do_pstep ex_pcg ex_pc [false;false;false] ex_ptbl true (pinit ex_pc 3 [0;1;2]) (PExec 0 [0;1;2] [2;1;0]) = None. (* not in perm_data *)
Proof. split; [apply wf_circb_ok; reflexivity|].
  eexists. split; [vm_compute; reflexivity|]. repeat split; reflexivity. Qed.

(* ---- the PAM clause at the level of PassData: (initial_mapping, final_mapping) ------------------- *)
(* At every moment of a PAM routing run pi is the initial pi pushed through the wire maps of the
   mapped circuit so far (pwalk: a block moves wire L[j] to L[inverse(pre)[j]] and then L[j] to
   L[post[j]], a swap transposes, a barrier does nothing), and every element of the output is
   well-formed (okp: duplicate-free in-range location, pre and post permutations of the block's
   size). *)
Theorem C09_pam_pi_is_walk : forall cg c bars tbl nq pi0 tr s,
  wf_circ c nq -> wfperm nq pi0 ->
  (forall n, n < length c -> nth n bars false = false -> Sorted.StronglySorted lt (gloc (opat c n))) ->
  preplay cg c bars tbl true (pinit c nq pi0) tr = Some s ->
  ppi s = pwalk pi0 (pout s) /\ (forall x, In x (pout s) -> okp bars nq x).
Proof. exact pam_pi_walk. Qed.

(* map/PamPipe.v: [SetModelPass; placement; PAMLayoutPass?; PAMRoutingPass; ApplyPlacement].
   Same bookkeeping as C09_mappings: initial_mapping = P0 o piL, final_mapping = P0 o piL o piR,
   both injective into the machine, P0 o piL a connected set of machine qudits, the output = the
   routed PAM circuit with every location (blocks, swaps, barriers) mapped through P0 o piL. *)
Theorem C09_pam_mappings : forall g c bars tbl nq,
  wf_circ c nq -> 1 <= nq -> forall p ltr rtr o d,
  pam_pipeline g c bars tbl nq p ltr rtr = Some (o, d) ->
  exists P0 piL piR cgR s,
    length P0 = nq /\ wfperm nq piL /\ wfperm nq piR /\
    let P1 := compose P0 piL in
    injinto (length g) P1 /\ length P1 = nq /\
    placement_connected g P1 = Some true /\
    connectivity (mkpd P1 (idperm nq) (idperm nq) g) = Some cgR /\
    preplay cgR c bars tbl true (pinit c nq (idperm nq)) rtr = Some s /\ pF s = [] /\ ppi s = piR /\
    o = map (prelabel P1) (pout s) /\
    imap d = P1 /\ fmap d = compose P1 piR /\ placement d = idperm (length g) /\
    injinto (length g) (imap d) /\ injinto (length g) (fmap d).
Proof. exact pam_pipeline_mappings. Qed.

(* The semantic clause of the property for the permutation-aware pipeline, on the MACHINE: under the
   triple contract (blk = meaning of a block, see C09_pam_same_unitary) and the same laws stated on
   the machine's qudits, the final circuit equals the input with logical qudit l entering on
   physical qudit initial_mapping[l], followed by the left-over wire permutations (ptail: the pre /
   post permutations of the blocks and the swaps); and pushing initial_mapping through the wire maps
   of the final circuit gives exactly final_mapping. *)
Theorem C09_pam_mappings_same_unitary : forall g c bars tbl nq,
  wf_circ c nq -> 1 <= nq ->
  (forall n, n < length c -> nth n bars false = false -> Sorted.StronglySorted lt (gloc (opat c n))) ->
  forall (M : Type) (mul : M -> M -> M) (one : M) (den : nat -> list nat -> M) (sw : nat -> nat -> M)
         (pmove : list nat -> list nat -> M),
  (forall x y z, mul x (mul y z) = mul (mul x y) z) -> (forall x, mul one x = x) -> (forall x, mul x one = x) ->
  (forall n1 L1 n2 L2, (forall q, In q L1 -> q < length g) -> (forall q, In q L2 -> q < length g) ->
     (forall q, In q L1 -> ~ In q L2) -> mul (den n1 L1) (den n2 L2) = mul (den n2 L2) (den n1 L1)) ->
  (forall a b n L, a < length g -> b < length g -> (forall q, In q L -> q < length g) ->
     mul (sw a b) (den n L) = mul (den n (map (tr a b) L)) (sw a b)) ->
  (forall L r n L', NoDup L -> (forall q, In q L -> q < length g) -> wfperm (length L) r ->
     (forall q, In q L' -> q < length g) ->
     mul (pmove L r) (den n L') = mul (den n (map (fmove L (inverse r)) L')) (pmove L r)) ->
  (forall n, nth n bars false = true -> forall L, den n L = one) ->
  forall p ltr rtr o d,
  pam_pipeline g c bars tbl nq p ltr rtr = Some (o, d) ->
  prodP M mul one den sw pmove o =
    mul (prodV M mul one den (imap d) (prog c)) (ptail M mul one sw pmove o)
  /\ fmap d = pwalk (imap d) o.
Proof. exact pam_pipeline_sem. Qed.

(* a complete PAM pipeline: machine 0-1-3-2 (4 qudits), GreedyPlacementPass picks {0,1,3}; block 0
   leaves its first two qudits exchanged, a swap, block 1 exchanges them again.
   initial_mapping [0;1;3], final_mapping [1;0;3] = initial_mapping pushed through the output. *)
Definition ex_pmach : adj := [[1];[0;3];[3];[1;2]].
Definition ex_ptbl2 : ptable :=
  [[mkpt [(0,1);(1,2)] [0;1;2] [0;1;2]; mkpt [(0,1);(1,2)] [0;1;2] [1;0;2]];
   [mkpt [(0,1)] [0;1] [0;1]; mkpt [(0,1)] [0;1] [1;0]];
   [mkpt [] [0] [0]]].
Example C09_pam_mappings_nonvacuous :
  (forall n, n < length ex_pc -> nth n [false;false;false] false = false ->
     Sorted.StronglySorted lt (gloc (opat ex_pc n))) /\
  exists o d, pam_pipeline ex_pmach ex_pc [false;false;false] ex_ptbl2 3 PGreedy None
                [PExec 0 [0;1;2] [1;0;2]; PSwap (0,1); PExec 1 [0;1] [1;0]; PExec 2 [0] [0]] = Some (o, d)
    /\ imap d = [0;1;3] /\ fmap d = [1;0;3] /\ placement d = [0;1;2;3]
    /\ map ploc o = [[0;1;3]; [0;1]; [0;1]; [0]] /\ pwalk (imap d) o = fmap d.
Proof. split.
  - intros n Hn _. destruct n as [|[|[|n]]]; simpl in Hn; try lia; simpl;
      repeat (constructor; try lia); repeat constructor; lia.
  - eexists. eexists. split; [vm_compute; reflexivity|]. repeat split; reflexivity. Qed.

(* ---- not proved: termination ---------------------------------------------------------------- *)
(* From every reachable state of a routing run on a connected graph some finite sequence of
   enabled steps empties the front set.  (Even this would not say that the float heuristic of
   the implementation finds it.)  NOT PROVED - kept visible only. *)
Definition C09_terminates_full : Prop := forall cg c nq pi0 tr s,
  wf_circ c nq -> wfperm nq pi0 -> Graph.is_fully_connected cg = Some true ->
  replay cg c true true (init c nq true pi0) tr = Some s ->
  exists tr' s', replay cg c true true s tr' = Some s' /\ F s' = [].

(* ---- what IS provable about termination (map/SabreBound.v) ------------------------------------------ *)
(* every operation is executed at most once: at most |c| Exec steps in any run *)
Theorem C09_progress_bounds : forall cg c nq pi0 tr s,
  wf_circ c nq -> wfperm nq pi0 ->
  replay cg c true true (init c nq true pi0) tr = Some s ->
  NoDup (executed tr) /\ (forall n, In n (executed tr) -> n < length c) /\ length (executed tr) <= length c.
Proof. exact exec_bound. Qed.

(* a run that obeys the control-flow guards of the loop (SabreStrict.replay_strict: swap only when
   nothing is executable and at most 5.|cg| leading swaps, backtrack only after more) never
   accumulates more than 5.|cg|+1 leading swaps: at most 5.|cg|+1 consecutive Swap steps *)
Theorem C09_strict_lead_bound : forall cg c fwd modify tr s s',
  length (lead s) <= 5 * length cg + 1 ->
  replay_strict cg c fwd modify s tr = Some s' -> length (lead s') <= 5 * length cg + 1.
Proof. exact strict_lead_bound. Qed.

(* ... but the guards do NOT bound the number of Swap*-Backtrack rounds: on the line 0-1-2-3 with one
   gate on (0,3), for every k there is a run of 22.k steps, every one enabled and obeying the guards,
   that executes nothing and ends in the initial state.  Hence no termination theorem can be proved
   for the transition system: whether the real loop leaves such a round is decided by the swaps the
   float heuristic picks and by _uphill_swaps after the backtrack (Uphill steps are unconstrained
   edges in the model), i.e. by the oracles. *)
Theorem C09_guards_do_not_bound_rounds : forall k,
  let tr := concat (repeat nt_round k) in
  replay_strict nt_cg nt_c true true nt_init tr = Some nt_init /\
  length tr = 22 * k /\ executed tr = [] /\ F nt_init <> [].
Proof. exact strict_runs_unbounded. Qed.

(* the bound of C09_strict_lead_bound is attained, and the 22nd consecutive swap is refused *)
Example C09_strict_nonvacuous :
  (exists s, replay_strict nt_cg nt_c true true nt_init (repeat (Swap (1,2)) 21) = Some s
             /\ length (lead s) = 5 * length nt_cg + 1 /\ F s = [0]) /\
  replay_strict nt_cg nt_c true true nt_init (repeat (Swap (1,2)) 22) = None /\
  replay nt_cg nt_c true true nt_init (repeat (Swap (1,2)) 22) <> None /\
  replay_strict nt_cg nt_c true true nt_init [Swap (1,2); Backtrack] = None.
Proof. split; [eexists; split; [vm_compute; reflexivity|split; reflexivity]|].
  split; [vm_compute; reflexivity|]. split; [vm_compute; discriminate|vm_compute; reflexivity]. Qed.

(* ---- non-vacuity ------------------------------------------------------------------------------ *)
(* a run on the line 0-1-2 with a swap that is backtracked, another swap, and the gate *)
Definition ex_cg : adj := mk_adj 3 [(0,1); (1,2)].     (* = [[1];[2;0];[1]] *)
Definition ex_c : circ := [mkop false [0;2]].
Example C09_route_nonvacuous :
  wf_circ ex_c 3 /\ wfperm 3 [0;1;2] /\ wf ex_cg /\ sym ex_cg /\ loopfree ex_cg /\
  exists s, replay ex_cg ex_c true true (init ex_c 3 true [0;1;2])
              [Swap (0,1); Backtrack; Swap (1,2); Exec 0] = Some s
    /\ F s = [] /\ pi s = [0;2;1] /\ out s = [OS 1 2; OG 0 [0;1]]
    /\ lview [0;1;2] (out s) = [(0, [0;2])]
    /\ do_step ex_cg ex_c true true (init ex_c 3 true [0;1;2]) (Exec 0) = None      (* not executable before the swap *)
    /\ do_step ex_cg ex_c true true (init ex_c 3 true [0;1;2]) (Swap (0,2)) = None. (* not an edge *)
Proof. split; [apply wf_circb_ok; reflexivity|].
  split; [apply wfpermb_wfperm; reflexivity|].
  assert (Hok : edges_ok 3 [(0,1); (1,2)]) by (intros e [<-|[<-|[]]]; simpl; lia).
  destruct (mk_adj_props 3 [(0,1); (1,2)] Hok) as (H1 & H2 & _ & H4).
  split; [exact H1|]. split; [exact H2|].
  split; [apply H4; intros e [<-|[<-|[]]]; simpl; lia|].
  eexists. split; [vm_compute; reflexivity|]. repeat split; reflexivity. Qed.

(* the laws of C09_route_same_unitary / C09_mappings_same_unitary are satisfiable:
   counting operations in (nat, +) *)
Example C09_semantics_nonvacuous :
  let mul := Nat.add in let den := fun (_ : nat) (_ : list nat) => 1 in let sw := fun (_ _ : nat) => 1 in
  (forall x y z, mul x (mul y z) = mul (mul x y) z) /\ (forall x, mul 0 x = x) /\ (forall x, mul x 0 = x) /\
  (forall n1 L1 n2 L2, mul (den n1 L1) (den n2 L2) = mul (den n2 L2) (den n1 L1)) /\
  (forall a b n L, mul (sw a b) (den n L) = mul (den n (map (tr a b) L)) (sw a b)) /\
  prodO nat mul 0 den sw [OS 1 2; OG 0 [0;1]] = 2.
Proof. simpl. repeat split; auto with arith. Qed.

(* a complete pipeline recorded from the implementation: machine 0-1-2-3, 2-4 (5 qudits),
   circuit X(1) CX(2,0) CX(0,1) X(0) CX(2,1) on 3 qudits, GreedyPlacementPass, one layout
   round, routing with a swap chosen by an adversarial heuristic.
   placement [1;2;3] -> layout [3;1;2]; initial_mapping [3;1;2], final_mapping [1;2;3]. *)
Definition ex_mach : adj := [[1];[0;2];[1;3;4];[2];[2]].
Definition ex_circ : circ := [mkop false [1]; mkop false [2;0]; mkop false [0;1]; mkop false [0]; mkop false [2;1]].
Definition ex_ltr : list (list step * list step) :=
  [([Exec 0; Swap (0,1); Exec 1; Exec 2; Exec 3; Swap (1,2); Exec 4],
    [Exec 3; Exec 4; Swap (0,1); Exec 2; Exec 0; Swap (0,1); Exec 1])].
Definition ex_rtr : list step := [Exec 0; Exec 1; Swap (0,2); Exec 2; Exec 3; Swap (1,2); Exec 4].
Example C09_mappings_nonvacuous :
  wf_circ ex_circ 3 /\
  exists o d, pipeline ex_mach ex_circ 3 PGreedy (Some ex_ltr) ex_rtr = Some (o, d)
    /\ imap d = [3;1;2] /\ fmap d = [1;2;3] /\ placement d = [0;1;2;3;4]
    /\ swaps_of o = [(3,2); (1,2)] /\ map (tr_all (swaps_of o)) (imap d) = fmap d.
Proof. split; [apply wf_circb_ok; reflexivity|].
  eexists. eexists. split; [vm_compute; reflexivity|]. repeat split; reflexivity. Qed.
